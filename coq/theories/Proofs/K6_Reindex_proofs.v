(* Proofs about Model/K6_Reindex.v: delete-mode = map idx . filter (in dict); mask-mode preserves length and
   positions; the mask entry is last, unique, and its index is the size of the dictionary without it; a fitted
   dictionary fed back (transform) is left unchanged and gives the same codes; n-grams of a masked sequence. *)
From Coq Require Import ZArith List Bool Arith Lia.
From VZ Require Import Model.K5_Vocab Model.K6_Reindex Proofs.K5_Vocab_proofs.
Import ListNotations.
Close Scope Z_scope.
Open Scope nat_scope.

Section ReindexProofs.
Variable T : Type.
Variable eqb : T -> T -> bool.
Hypothesis eqb_eq : forall a b, eqb a b = true <-> a = b.

Notation dict := (dict T).
Notation lookup := (lookup T eqb).
Notation remove_key := (remove_key T eqb).
Notation reindex_delete := (reindex_delete T eqb).
Notation reindex_mask := (reindex_mask T eqb).
Notation add_mask := (add_mask T).
Notation reindex := (reindex T eqb).

Definition in_dict (d : dict) (t : T) : bool := match lookup d t with Some _ => true | None => false end.
Definition idx (d : dict) (t : T) : nat := match lookup d t with Some i => i | None => 0 end.
(* the code of a token in mask mode: its index, or the size of the dictionary *)
Definition code (d : dict) (t : T) : nat := match lookup d t with Some i => i | None => length d end.

Lemma eqb_refl' : forall a, eqb a a = true. Proof. intro a. now apply eqb_eq. Qed.
Lemma eqb_sym : forall a b, eqb a b = eqb b a.
Proof.
  intros a b. destruct (eqb a b) eqn:E, (eqb b a) eqn:E'; try reflexivity.
  - apply eqb_eq in E. subst. rewrite eqb_refl' in E'. discriminate.
  - apply eqb_eq in E'. subst. rewrite eqb_refl' in E. discriminate.
Qed.

Theorem reindex_delete_spec : forall d s, reindex_delete d s = map (idx d) (filter (in_dict d) s).
Proof.
  intros d s. unfold K6_Reindex.reindex_delete, in_dict, idx. induction s as [|t s IH]; simpl; [reflexivity|].
  destruct (lookup d t) eqn:E; simpl; rewrite ?E, IH; reflexivity.
Qed.

Theorem reindex_mask_length : forall d s, length (reindex_mask d s) = length s.
Proof. intros. apply map_length. Qed.

Theorem reindex_mask_nth : forall d s p,
  nth_error (reindex_mask d s) p = option_map (code d) (nth_error s p).
Proof. intros d s p. unfold K6_Reindex.reindex_mask. now rewrite nth_error_map. Qed.

Lemma lookup_In_fst : forall d t i, lookup d t = Some i -> In t (map fst d).
Proof.
  induction d as [|[k v] d IH]; simpl; intros t i H; [discriminate|].
  destruct (eqb t k) eqn:E; [left; symmetry; now apply eqb_eq | right; eauto].
Qed.

Lemma lookup_not_In : forall d t, ~ In t (map fst d) -> lookup d t = None.
Proof.
  intros d t H. destruct (lookup d t) eqn:E; [|reflexivity]. exfalso. apply H. eapply lookup_In_fst; eauto.
Qed.

Lemma lookup_remove_key : forall m d t, lookup (remove_key m d) t = if eqb t m then None else lookup d t.
Proof.
  intros m d t. unfold K6_Reindex.remove_key. induction d as [|[k v] d IH]; simpl; [now destruct (eqb t m)|].
  destruct (eqb m k) eqn:E; simpl.
  - apply eqb_eq in E; subst k. destruct (eqb t m); [exact IH | exact IH].
  - destruct (eqb t k) eqn:E2.
    + apply eqb_eq in E2; subst k. rewrite eqb_sym, E. reflexivity.
    + exact IH.
Qed.

Lemma remove_key_not_In : forall m d, ~ In m (map fst (remove_key m d)).
Proof.
  intros m d H. unfold K6_Reindex.remove_key in H. apply in_map_iff in H. destruct H as ([k v] & E & H).
  apply filter_In in H. destruct H as [_ H]. simpl in *. subst k. rewrite eqb_refl' in H. discriminate.
Qed.

Lemma remove_key_id : forall m d, ~ In m (map fst d) -> remove_key m d = d.
Proof.
  intros m d H. unfold K6_Reindex.remove_key. apply filter_all. rewrite Forall_forall. intros [k v] Hin. simpl.
  apply negb_true_iff. destruct (eqb m k) eqn:E; [|reflexivity]. apply eqb_eq in E. subst k.
  exfalso. apply H. apply in_map_iff. exists (m, v). auto.
Qed.

Lemma lookup_app : forall d d' t, lookup (d ++ d') t = match lookup d t with Some i => Some i | None => lookup d' t end.
Proof.
  induction d as [|[k v] d IH]; intros d' t; simpl; [reflexivity|]. destruct (eqb t k); [reflexivity | apply IH].
Qed.

(* the mask entry: last, unique, index = size of the dictionary without it *)
Theorem mask_last : forall m d docs,
  let d' := snd (reindex (Some m) d docs) in
  last d' (m, 0) = (m, length (remove_key m d)) /\
  lookup d' m = Some (length (remove_key m d)) /\
  length d' = S (length (remove_key m d)) /\
  count_occ (fun a b => K5_Vocab_proofs.eq_dec T eqb eqb_eq a b) (map fst d') m = 1.
Proof.
  intros m d docs. simpl. unfold K6_Reindex.add_mask. set (r := remove_key m d).
  split; [apply last_last|]. split.
  - rewrite lookup_app. rewrite (lookup_not_In r m) by apply remove_key_not_In. simpl. now rewrite eqb_refl'.
  - split; [rewrite app_length; simpl; lia|].
    rewrite map_app, count_occ_app. simpl.
    rewrite (proj1 (count_occ_not_In _ _ _) (remove_key_not_In m d)).
    destruct (K5_Vocab_proofs.eq_dec T eqb eqb_eq m m); [reflexivity|contradiction].
Qed.

(* every other token keeps its index; with contiguous indices (a learned vocabulary) the mask index is the largest *)
Theorem mask_other_entries : forall m d docs t, t <> m ->
  lookup (snd (reindex (Some m) d docs)) t = lookup d t.
Proof.
  intros m d docs t Ht. simpl. unfold K6_Reindex.add_mask. rewrite lookup_app, lookup_remove_key.
  assert (E : eqb t m = false) by (destruct (eqb t m) eqn:E; [apply eqb_eq in E; contradiction | reflexivity]).
  rewrite E. destruct (lookup d t); [reflexivity|]. simpl. now rewrite E.
Qed.

Theorem mask_index_fresh : forall m d docs t i,
  ~ In m (map fst d) -> map snd d = seq 0 (length d) ->
  lookup (snd (reindex (Some m) d docs)) t = Some i -> t <> m -> i < length d.
Proof.
  intros m d docs t i Hm Hwf H Ht. rewrite mask_other_entries in H by assumption.
  assert (In i (map snd d)).
  { clear Hwf. induction d as [|[k v] d IH]; simpl in *; [discriminate|].
    destruct (eqb t k); [inversion H; now left | right; apply IH; tauto]. }
  rewrite Hwf in H0. apply in_seq in H0. lia.
Qed.

(* positions: out[p] = index of s[p] if it is in the dictionary, the mask index otherwise *)
Theorem mask_positions : forall m d docs k s, nth_error docs k = Some s ->
  let out := nth k (fst (reindex (Some m) d docs)) [] in
  let d' := remove_key m d in
  length out = length s /\
  forall p t, nth_error s p = Some t ->
    nth_error out p = Some (match lookup d' t with Some i => i | None => length d' end).
Proof.
  intros m d docs k s Hk. simpl.
  assert (E : nth k (map (reindex_mask (remove_key m d)) docs) [] = reindex_mask (remove_key m d) s).
  { apply nth_error_nth. rewrite nth_error_map, Hk. reflexivity. }
  rewrite E. split; [apply reindex_mask_length|].
  intros p t Hp. rewrite reindex_mask_nth, Hp. reflexivity.
Qed.

Theorem delete_mode : forall d docs,
  reindex None d docs = (map (fun s => map (idx d) (filter (in_dict d) s)) docs, d).
Proof.
  intros d docs. simpl. f_equal. apply map_ext. intro s. apply reindex_delete_spec.
Qed.

(* transform: the fitted dictionary (vocabulary + mask last) is left as it is and yields the codes of fit *)
Theorem mask_refit_stable : forall m d0 docs, ~ In m (map fst d0) ->
  reindex (Some m) (add_mask m d0) docs = (map (reindex_mask d0) docs, add_mask m d0).
Proof.
  intros m d0 docs Hm. simpl.
  assert (E : remove_key m (add_mask m d0) = d0).
  { unfold K6_Reindex.add_mask, K6_Reindex.remove_key. rewrite filter_app. simpl. rewrite eqb_refl'. simpl.
    rewrite app_nil_r. apply (remove_key_id m d0 Hm). }
  now rewrite E.
Qed.

(* tree copy *)
Theorem relabel_positions : forall m d labels p t, nth_error labels p = Some t ->
  length (relabel_mask T eqb m d labels) = length labels /\
  nth_error (relabel_mask T eqb m d labels) p = Some (if in_dict d t then t else m).
Proof.
  intros m d labels p t Hp. unfold relabel_mask. split; [apply map_length|].
  rewrite nth_error_map, Hp. simpl. unfold in_dict. now destruct (lookup d t).
Qed.

End ReindexProofs.

(* ngrams_of: the windows s[i : i+n] *)
Lemma flat_map_guard : forall (A : Type) (f : nat -> A) (L n len a : nat),
  flat_map (fun i => if (i + n <=? L)%nat then [f i] else []) (seq a len)
  = map f (seq a (Nat.min len (L + 1 - n - a))).
Proof.
  intros A f L n len; induction len as [|len IH]; intro a; simpl; [reflexivity|].
  destruct (Nat.leb_spec (a + n) L) as [H|H].
  - rewrite IH. replace (L + 1 - n - a) with (S (L + 1 - n - S a)) by lia. simpl. reflexivity.
  - rewrite IH. replace (L + 1 - n - S a) with 0 by lia. replace (L + 1 - n - a) with 0 by lia.
    rewrite Nat.min_0_r. reflexivity.
Qed.

Theorem ngrams_exact_spec : forall (A : Type) (n : nat) (s : list A), 1 <= n ->
  ngrams_exact n s = map (fun i => firstn n (skipn i s)) (seq 0 (length s + 1 - n)).
Proof.
  intros A n s Hn. unfold ngrams_exact. rewrite flat_map_guard. f_equal. f_equal. lia.
Qed.

Theorem ngrams_exact_map : forall (A B : Type) (g : A -> B) n s,
  ngrams_exact n (map g s) = map (map g) (ngrams_exact n s).
Proof.
  intros A B g n s. unfold ngrams_exact. rewrite map_length.
  induction (seq 0 (length s)) as [|i l IH]; simpl; [reflexivity|].
  rewrite map_app, IH. f_equal. destruct (i + n <=? length s); simpl; [|reflexivity].
  now rewrite <- firstn_map, <- skipn_map.
Qed.

(* NgramVectorizer in mask mode: as many n-grams as the raw document has, the i-th over the codes of s[i:i+n] *)
Theorem ngram_positions : forall (T : Type) (eqb : T -> T -> bool) (d : dict T) (n : nat) (s : list T), 1 <= n ->
  ngrams_exact n (reindex_mask T eqb d s)
  = map (fun i => map (code T eqb d) (firstn n (skipn i s))) (seq 0 (length s + 1 - n)).
Proof.
  intros T eqb d n s Hn. unfold reindex_mask. change (fun t => match lookup T eqb d t with Some i => i | None => length d end)
    with (code T eqb d). rewrite ngrams_exact_map, ngrams_exact_spec by exact Hn. rewrite map_map. reflexivity.
Qed.
