(* Proofs about Model/K02_Windows.v: the window is the list of in-range positions at distance 1..R on one side,
   in distance order; pointwise value of the kernels. *)
From Coq Require Import List Arith Bool Lia Permutation.
From VZ Require Import Model.K02_Windows Proofs.K03_BigSum.
Import ListNotations.

Lemma nth_map_lt : forall A B (f : A -> B) (l : list A) (d : A) (d' : B) j, j < length l ->
  nth j (map f l) d' = f (nth j l d).
Proof.
  induction l; intros d d' j Hj; simpl in Hj; [lia|]. destruct j; [reflexivity|]. simpl. apply IHl. lia.
Qed.

(* ---------- slices ---------- *)

Lemma firstn_map_nth : forall A (d : A) (s : list A) b, b <= length s ->
  firstn b s = map (fun q => nth q s d) (seq 0 b).
Proof.
  induction s; intros b Hb; simpl in Hb.
  - assert (b = 0) by lia. subst. reflexivity.
  - destruct b; [reflexivity|]. simpl. f_equal. rewrite IHs by lia.
    rewrite <- seq_shift, map_map. reflexivity.
Qed.

Lemma slice_map_nth : forall A (d : A) a (s : list A) b, b <= length s ->
  slice a b s = map (fun q => nth q s d) (seq a (b - a)).
Proof.
  unfold slice. induction a; intros s b Hb.
  - rewrite Nat.sub_0_r. simpl. apply firstn_map_nth. assumption.
  - destruct s as [|x s'].
    + simpl in Hb. assert (b = 0) by lia. subst. reflexivity.
    + simpl in Hb. simpl skipn. destruct b; [reflexivity|].
      replace (S b - S a) with (b - a) by lia. rewrite IHa by lia.
      rewrite <- seq_shift, map_map. reflexivity.
Qed.

Lemma slice_length : forall A a b (s : list A), b <= length s -> length (slice a b s) = b - a.
Proof. intros. unfold slice. rewrite firstn_length, skipn_length. lia. Qed.

Lemma rev_seq : forall m a, rev (seq a m) = map (fun j => a + m - 1 - (j - a)) (seq a m).
Proof.
  induction m; intros a; [reflexivity|].
  rewrite seq_S at 1. rewrite rev_app_distr. simpl rev. simpl app.
  rewrite IHm. cbn [seq map].
  replace (a + S m - 1 - (a - a)) with (a + m) by lia. f_equal.
  rewrite <- seq_shift, !map_map.
  apply map_ext_in. intros j Hj. apply in_seq in Hj. lia.
Qed.

Lemma seq_as_map : forall n a, seq a n = map (fun j => a + j) (seq 0 n).
Proof.
  induction n; intros a; [reflexivity|].
  simpl. rewrite Nat.add_0_r. f_equal. rewrite <- (seq_shift n 0), map_map. rewrite (IHn (S a)).
  apply map_ext. intros. lia.
Qed.

(* ---------- the window as a list of positions ---------- *)

(* positions at distance 1..R on one side of p that lie inside [0, L), in distance order *)
Definition win_positions (reverse : bool) (R p L : nat) : list nat :=
  if reverse then map (fun k => p - k) (seq 1 (Nat.min R p))
  else map (fun k => p + k) (seq 1 (Nat.min R (L - 1 - p))).

Lemma window_at_index_positions : forall A (d : A) (s : list A) R p reverse, p < length s ->
  window_at_index s R p reverse = map (fun q => nth q s d) (win_positions reverse R p (length s)).
Proof.
  intros A d s R p reverse Hp. unfold window_at_index, win_positions. destruct reverse.
  - rewrite Nat.max_0_r. rewrite (slice_map_nth A d) by lia.
    rewrite <- map_rev, rev_seq, !map_map.
    replace (p - (p - R)) with (Nat.min R p) by lia.
    rewrite (seq_as_map _ (p - R)), (seq_as_map _ 1), !map_map.
    apply map_ext_in. intros j Hj. apply in_seq in Hj. f_equal. lia.
  - rewrite (slice_map_nth A d) by lia. rewrite map_map.
    replace (Nat.min (p + R + 1) (length s) - (p + 1)) with (Nat.min R (length s - 1 - p)) by lia.
    rewrite (seq_as_map _ (p + 1)), (seq_as_map _ 1), !map_map.
    apply map_ext. intros j. f_equal. lia.
Qed.

Lemma win_positions_length : forall reverse R p L,
  length (win_positions reverse R p L) = if reverse then Nat.min R p else Nat.min R (L - 1 - p).
Proof. intros. unfold win_positions. destruct reverse; rewrite map_length, seq_length; reflexivity. Qed.

(* slot j of the window is the position at distance j+1 *)
Lemma win_positions_nth : forall reverse R p L j, j < length (win_positions reverse R p L) ->
  nth j (win_positions reverse R p L) 0 = if reverse then p - (j + 1) else p + (j + 1).
Proof.
  intros reverse R p L j Hj. rewrite win_positions_length in Hj. unfold win_positions. destruct reverse.
  - rewrite (nth_map_lt _ _ _ _ 0) by (rewrite seq_length; assumption).
    rewrite seq_nth by assumption. f_equal. lia.
  - rewrite (nth_map_lt _ _ _ _ 0) by (rewrite seq_length; assumption).
    rewrite seq_nth by assumption. f_equal. lia.
Qed.

Lemma win_positions_In : forall reverse R p L q, p < L ->
  In q (win_positions reverse R p L) <-> q < L /\ in_win reverse R p q = true.
Proof.
  intros reverse R p L q Hp. unfold win_positions, in_win. destruct reverse; rewrite in_map_iff.
  - split.
    + intros [k [<- Hk]]. apply in_seq in Hk. split; [lia|].
      apply andb_true_intro. split; [apply Nat.leb_le | apply Nat.ltb_lt]; lia.
    + intros [Hq H]. apply andb_prop in H. destruct H as [H1 H2].
      apply Nat.leb_le in H1. apply Nat.ltb_lt in H2.
      exists (p - q). split; [lia|]. apply in_seq. lia.
  - split.
    + intros [k [<- Hk]]. apply in_seq in Hk. split; [lia|].
      apply andb_true_intro. split; [apply Nat.ltb_lt | apply Nat.leb_le]; lia.
    + intros [Hq H]. apply andb_prop in H. destruct H as [H1 H2].
      apply Nat.ltb_lt in H1. apply Nat.leb_le in H2.
      exists (q - p). split; [lia|]. apply in_seq. lia.
Qed.

Lemma NoDup_map_inj_in : forall A B (f : A -> B) (l : list A),
  (forall x y, In x l -> In y l -> f x = f y -> x = y) -> NoDup l -> NoDup (map f l).
Proof.
  induction l; intros Hinj Hnd; simpl; [constructor|].
  inversion Hnd; subst. constructor.
  - intros Hin. apply in_map_iff in Hin. destruct Hin as [x [Hfx Hx]].
    assert (x = a) by (apply Hinj; [right; assumption | left; reflexivity | assumption]). subst. contradiction.
  - apply IHl; [|assumption]. intros; apply Hinj; try (right; assumption); assumption.
Qed.

Lemma win_positions_NoDup : forall reverse R p L, NoDup (win_positions reverse R p L).
Proof.
  intros. unfold win_positions. destruct reverse.
  - apply NoDup_map_inj_in; [|apply seq_NoDup].
    intros x y Hx Hy H. apply in_seq in Hx. apply in_seq in Hy. lia.
  - apply NoDup_map_inj_in; [|apply seq_NoDup].
    intros x y Hx Hy H. lia.
Qed.

(* the distance of slot j is j+1 *)
Lemma win_positions_dist : forall reverse R p L j, j < length (win_positions reverse R p L) ->
  dist p (nth j (win_positions reverse R p L) 0) = j + 1.
Proof.
  intros reverse R p L j Hj. rewrite win_positions_nth by assumption.
  rewrite win_positions_length in Hj. unfold dist. destruct reverse.
  - destruct (Nat.leb_spec p (p - (j + 1))); lia.
  - destruct (Nat.leb_spec p (p + (j + 1))); lia.
Qed.

(* every listed position is at distance index+1: the list is `map` of its own index *)
Lemma win_positions_indexed : forall reverse R p L,
  win_positions reverse R p L =
  map (fun j => if reverse then p - (j + 1) else p + (j + 1)) (seq 0 (length (win_positions reverse R p L))).
Proof.
  intros. rewrite win_positions_length. unfold win_positions. destruct reverse;
    rewrite <- seq_shift, map_map; apply map_ext; intros; f_equal; lia.
Qed.

(* ---------- sums over a window are indicator sums over all positions ---------- *)

Lemma window_sum_indicator : forall (K : carrier), carrier_laws K ->
  forall reverse R p L (f : nat -> K), p < L ->
  bigsum f (win_positions reverse R p L) = isum L (fun q => if in_win reverse R p q then f q else zero).
Proof.
  intros K HK reverse R p L f Hp. apply isum_indicator; [assumption | apply win_positions_NoDup |].
  intros q. apply win_positions_In. assumption.
Qed.

(* ---------- kernels, pointwise ---------- *)

Section Kernels.
Context {K : carrier}.

Lemma base_weights_length : forall (kf : nat -> K) len, length (base_weights kf len) = len.
Proof. intros. unfold base_weights. rewrite map_length, seq_length. reflexivity. Qed.

Lemma mask_out_length : forall mask (win : list nat) (res : list K), length win = length res ->
  length (mask_out mask win res) = length res.
Proof. intros. unfold mask_out. destruct mask; [|reflexivity]. rewrite map_length, combine_length. lia. Qed.

Lemma offset_out_length : forall off (res : list K), length (offset_out off res) = length res.
Proof. intros. unfold offset_out. rewrite app_length, repeat_length, skipn_length. lia. Qed.

Lemma l1_normalize_length : forall (res : list K), length (l1_normalize res) = length res.
Proof. intros. unfold l1_normalize. destruct (gtb0 (tsum res)); [apply map_length | reflexivity]. Qed.

Lemma nth_repeat_lt : forall A (a d : A) n k, k < n -> nth k (repeat a n) d = a.
Proof. induction n; intros; [lia|]. destruct k; [reflexivity|]. simpl. apply IHn. lia. Qed.

Lemma nth_skipn_ge : forall A (d : A) k (l : list A) j, k <= j -> nth (j - k) (skipn k l) d = nth j l d.
Proof.
  induction k; intros l j Hj.
  - rewrite Nat.sub_0_r. reflexivity.
  - destruct l; [simpl; destruct (j - S k); destruct j; reflexivity|]. destruct j; [lia|]. simpl. apply IHk. lia.
Qed.

(* the un-normalised kernel value of slot j depends only on j, on whether the slot's token is the mask, and
   on the slot's base weight *)
Lemma raw_kernel_nth : forall mask off (win : list nat) (base : list K) j, length win = length base -> j < length win ->
  nth j (offset_out off (mask_out mask win base)) zero =
  if (j <? off) || is_mask mask (nth j win 0) then zero else nth j base zero.
Proof.
  intros mask off win base j Hl Hj. unfold offset_out.
  pose proof (mask_out_length mask win base Hl) as Hml. rewrite Hml.
  destruct (Nat.ltb_spec j off) as [Hjo|Hjo]; simpl orb.
  - rewrite app_nth1 by (rewrite repeat_length; lia). apply nth_repeat_lt. lia.
  - rewrite app_nth2 by (rewrite repeat_length; lia). rewrite repeat_length.
    replace (Nat.min off (length base)) with off by lia.
    rewrite nth_skipn_ge by assumption.
    unfold mask_out, is_mask. destruct mask as [m|]; [|reflexivity].
    rewrite (nth_map_lt _ _ _ _ (0, zero)) by (rewrite combine_length; lia).
    rewrite combine_nth by assumption. reflexivity.
Qed.

Lemma list_map_nth_seq : forall A (d : A) (l : list A), l = map (fun j => nth j l d) (seq 0 (length l)).
Proof.
  intros. apply (nth_ext _ _ d d); [rewrite map_length, seq_length; reflexivity|].
  intros n Hn. rewrite (nth_map_lt _ _ _ _ 0) by (rewrite seq_length; assumption).
  rewrite seq_nth by assumption. reflexivity.
Qed.

End Kernels.

(* ---------- statements used by Properties/C03.v ---------- *)

Lemma window_after_spec : forall A (d : A) (s : list A) R p, p < length s ->
  window_at_index s R p false = map (fun k => nth (p + k) s d) (seq 1 (Nat.min R (length s - 1 - p))).
Proof.
  intros. rewrite (window_at_index_positions A d) by assumption. unfold win_positions. rewrite map_map. reflexivity.
Qed.

Lemma window_before_spec : forall A (d : A) (s : list A) R p, p < length s ->
  window_at_index s R p true = map (fun k => nth (p - k) s d) (seq 1 (Nat.min R p)).
Proof.
  intros. rewrite (window_at_index_positions A d) by assumption. unfold win_positions. rewrite map_map. reflexivity.
Qed.

Lemma kernel_nth : forall (K : carrier) (kf : nat -> K) mask off (win : list nat) j, j < length win ->
  nth j (kernel kf mask false off win) zero =
  if (j <? off) || is_mask mask (nth j win 0) then zero else kf (j + 1).
Proof.
  intros K kf mask off win j Hj. unfold kernel, finish_kernel.
  rewrite raw_kernel_nth by (rewrite ?base_weights_length; try reflexivity; assumption).
  unfold base_weights. rewrite (nth_map_lt _ _ _ _ 0 zero) by (rewrite seq_length; assumption).
  rewrite seq_nth by assumption. replace (1 + j) with (j + 1) by lia. reflexivity.
Qed.

Lemma timed_kernel_nth : forall (K : carrier) Tm (g : Tm -> K) (t0 : Tm) mask off (win : list nat) (deltas : list Tm) j,
  length win = length deltas -> j < length win ->
  nth j (timed_kernel g mask false off win deltas) zero =
  if (j <? off) || is_mask mask (nth j win 0) then zero else g (nth j deltas t0).
Proof.
  intros K Tm g t0 mask off win deltas j Hl Hj. unfold timed_kernel, finish_kernel.
  rewrite raw_kernel_nth by (rewrite ?map_length; assumption).
  rewrite (nth_map_lt _ _ _ _ t0 zero) by lia. reflexivity.
Qed.

Lemma kernel_length : forall (K : carrier) (kf : nat -> K) mask norm off (win : list nat),
  length (kernel kf mask norm off win) = length win.
Proof.
  intros. unfold kernel, finish_kernel.
  destruct norm; rewrite ?l1_normalize_length, offset_out_length, mask_out_length, base_weights_length;
    rewrite ?base_weights_length; reflexivity.
Qed.

Lemma window_at_index_map : forall A B (f : A -> B) (s : list A) R p reverse,
  window_at_index (map f s) R p reverse = map f (window_at_index s R p reverse).
Proof.
  intros. unfold window_at_index, slice. rewrite map_length.
  destruct reverse; rewrite skipn_map, firstn_map, ?map_rev; reflexivity.
Qed.
