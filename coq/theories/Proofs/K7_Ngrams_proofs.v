From Coq Require Import ZArith List Lia Bool Permutation Arith.
From VZ Require Import Model.K10_Assembly Model.K7_Ngrams Proofs.K10_Assembly_proofs.
Import ListNotations.
Open Scope Z_scope.

(* ================= specification side: runs, occurrences ================= *)
(* the run of n consecutive elements starting at position i, element by element *)
Definition run {A} (d : A) (s : list A) (i n : nat) : list A := map (fun j => nth (i + j)%nat s d) (seq 0 n).

(* does g occur at position p of s? *)
Definition run_at (s g : list Z) (p : nat) : bool :=
  (p + length g <=? length s)%nat && forallb (fun j => nth (p + j)%nat s 0 =? nth j g 0) (seq 0 (length g)).

(* the number of positions at which g occurs in s *)
Definition occurrences (s g : list Z) : nat := length (filter (run_at s g) (seq 0 (length s))).

Definition gram_dec := list_eq_dec Z.eq_dec.

(* ================= list helpers ================= *)
Lemma filter_all_true {A} (P : A -> bool) l : (forall x, In x l -> P x = true) -> filter P l = l.
Proof.
  induction l as [|x l IH]; intros H; [reflexivity|]. cbn. rewrite (H x) by (left; reflexivity).
  f_equal. apply IH. intros y Hy. apply H. right. exact Hy.
Qed.

Lemma filter_all_false {A} (P : A -> bool) l : (forall x, In x l -> P x = false) -> filter P l = [].
Proof.
  induction l as [|x l IH]; intros H; [reflexivity|]. cbn. rewrite (H x) by (left; reflexivity).
  apply IH. intros y Hy. apply H. right. exact Hy.
Qed.

Lemma filter_seq_prefix (P : nat -> bool) a k k' :
  (k' <= k)%nat -> (forall j, (a <= j < a + k')%nat -> P j = true) ->
  (forall j, (a + k' <= j < a + k)%nat -> P j = false) -> filter P (seq a k) = seq a k'.
Proof.
  intros Hk Ht Hf. replace k with (k' + (k - k'))%nat by lia. rewrite seq_app, filter_app.
  rewrite filter_all_true by (intros j Hj; apply in_seq in Hj; apply Ht; lia).
  rewrite filter_all_false by (intros j Hj; apply in_seq in Hj; apply Hf; lia).
  apply app_nil_r.
Qed.

Lemma flat_map_cond {A B} (P : A -> bool) (f : A -> B) l :
  flat_map (fun i => if P i then [f i] else []) l = map f (filter P l).
Proof. induction l as [|x l IH]; [reflexivity|]. cbn. destruct (P x); cbn; rewrite IH; reflexivity. Qed.

Lemma slice_length {A} i n (s : list A) : (i + n <= length s)%nat -> length (slice i n s) = n.
Proof. intros H. unfold slice. rewrite firstn_length, skipn_length. lia. Qed.

Lemma slice_nth {A} (d : A) i n (s : list A) k : (k < n)%nat -> nth k (slice i n s) d = nth (i + k) s d.
Proof. intros H. unfold slice. rewrite k10_nth_firstn by exact H. apply k10_nth_skipn. Qed.

Lemma run_length {A} (d : A) s i n : length (run d s i n) = n.
Proof. unfold run. rewrite map_length, seq_length. reflexivity. Qed.

Lemma nth_map_seq {B} (f : nat -> B) (d : B) a n k : (k < n)%nat -> nth k (map f (seq a n)) d = f (a + k)%nat.
Proof.
  revert a k. induction n as [|n IH]; intros a k H; [lia|]. destruct k as [|k]; cbn [seq map nth].
  - f_equal. lia.
  - rewrite IH by lia. f_equal. lia.
Qed.

Lemma run_nth {A} (d : A) s i n k : (k < n)%nat -> nth k (run d s i n) d = nth (i + k) s d.
Proof. intros H. unfold run. rewrite nth_map_seq by exact H. reflexivity. Qed.

Lemma slice_run {A} (d : A) (s : list A) i n : (i + n <= length s)%nat -> slice i n s = run d s i n.
Proof.
  intros H. apply (nth_ext _ _ d d).
  - rewrite slice_length, run_length by exact H. reflexivity.
  - intros k Hk. rewrite slice_length in Hk by exact H. rewrite slice_nth, run_nth by exact Hk. reflexivity.
Qed.

(* ================= ngrams_of: pointwise specification ================= *)
Theorem ngrams_exact_spec {A} (d : A) (s : list A) n :
  (1 <= n)%nat -> ngrams_of s n Exact = map (fun i => run d s i n) (seq 0 (length s + 1 - n)).
Proof.
  intros Hn. unfold ngrams_of. rewrite (flat_map_cond (fun i => (i + n <=? length s)%nat) (fun i => slice i n s)).
  rewrite (filter_seq_prefix _ 0 (length s) (length s + 1 - n)).
  - apply map_ext_in. intros i Hi. apply in_seq in Hi. apply slice_run. lia.
  - lia.
  - intros j Hj. apply Nat.leb_le. lia.
  - intros j Hj. apply Nat.leb_gt. lia.
Qed.

Theorem ngrams_subgrams_spec {A} (d : A) (s : list A) n :
  ngrams_of s n Subgrams
  = flat_map (fun i => map (fun j => run d s i j) (seq 1 (Nat.min n (length s - i)))) (seq 0 (length s)).
Proof.
  unfold ngrams_of. apply flat_map_ext. intros i.
  rewrite (flat_map_cond (fun j => (i + j <=? length s)%nat) (fun j => slice i j s)).
  rewrite (filter_seq_prefix _ 1 n (Nat.min n (length s - i))).
  - apply map_ext_in. intros j Hj. apply in_seq in Hj. apply slice_run. lia.
  - lia.
  - intros j Hj. apply Nat.leb_le. lia.
  - intros j Hj. apply Nat.leb_gt. lia.
Qed.

Lemma map_flat_map {A B C} (g : B -> C) (f : A -> list B) l :
  map g (flat_map f l) = flat_map (fun x => map g (f x)) l.
Proof. induction l as [|x l IH]; [reflexivity|]. cbn. rewrite map_app, IH. reflexivity. Qed.

Lemma ngrams_of_map {A B} (f : A -> B) (s : list A) n b :
  ngrams_of (map f s) n b = map (map f) (ngrams_of s n b).
Proof.
  assert (Hs : forall i j, slice i j (map f s) = map f (slice i j s)).
  { intros i j. unfold slice. rewrite <- firstn_map, <- skipn_map. reflexivity. }
  unfold ngrams_of. rewrite map_length, map_flat_map.
  apply flat_map_ext. intros i. destruct b.
  - destruct (i + n <=? length s)%nat; [cbn; rewrite Hs; reflexivity|reflexivity].
  - rewrite map_flat_map. apply flat_map_ext. intros j.
    destruct (i + j <=? length s)%nat; [cbn; rewrite Hs; reflexivity|reflexivity].
Qed.

(* ================= counting occurrences ================= *)
Lemma list_eqb_spec x y : list_eqb x y = true <-> x = y.
Proof.
  revert y. induction x as [|a x IH]; intros [|b y]; cbn; try (split; [discriminate|discriminate]); [tauto|].
  rewrite andb_true_iff, Z.eqb_eq, IH. split; [intros [-> ->]; reflexivity|intros [= -> ->]; tauto].
Qed.

Lemma run_at_spec s g p : run_at s g p = true <-> (p + length g <= length s)%nat /\ slice p (length g) s = g.
Proof.
  unfold run_at. rewrite andb_true_iff, Nat.leb_le, forallb_forall. split.
  - intros [Hl Hf]. split; [exact Hl|]. rewrite (slice_run 0) by exact Hl. apply (nth_ext _ _ 0 0).
    + apply run_length.
    + intros k Hk. rewrite run_length in Hk. rewrite run_nth by exact Hk. apply Z.eqb_eq, Hf. apply in_seq. lia.
  - intros [Hl He]. split; [exact Hl|]. intros j Hj. apply in_seq in Hj. apply Z.eqb_eq.
    transitivity (nth j (slice p (length g) s) 0); [symmetry; apply slice_nth; lia|rewrite He; reflexivity].
Qed.

Lemma count_occ_flat_map_sing (P : nat -> bool) (f : nat -> list Z) l g :
  count_occ gram_dec (flat_map (fun i => if P i then [f i] else []) l) g
  = length (filter (fun i => P i && list_eqb (f i) g) l).
Proof.
  induction l as [|x l IH]; [reflexivity|]. cbn [flat_map filter]. rewrite count_occ_app, IH.
  destruct (P x); cbn [andb]; [|reflexivity].
  destruct (list_eqb (f x) g) eqn:E.
  - apply list_eqb_spec in E. rewrite E. cbn [count_occ]. destruct (gram_dec g g); [reflexivity|congruence].
  - cbn [count_occ]. destruct (gram_dec (f x) g) as [Heq|]; [|reflexivity].
    apply list_eqb_spec in Heq. congruence.
Qed.

Lemma filter_length_ext {A} (P Q : A -> bool) l :
  (forall x, In x l -> P x = Q x) -> length (filter P l) = length (filter Q l).
Proof. intros H. rewrite (filter_ext_in P Q l H). reflexivity. Qed.

Theorem count_occ_ngrams_exact s n g :
  (1 <= n)%nat ->
  count_occ gram_dec (ngrams_of s n Exact) g = if (length g =? n)%nat then occurrences s g else 0%nat.
Proof.
  intros Hn. unfold ngrams_of.
  rewrite (count_occ_flat_map_sing (fun i => (i + n <=? length s)%nat) (fun i => slice i n s)).
  destruct (length g =? n)%nat eqn:E.
  - apply Nat.eqb_eq in E. unfold occurrences. apply filter_length_ext. intros i _.
    apply eq_true_iff_eq. rewrite andb_true_iff, Nat.leb_le, list_eqb_spec, run_at_spec, E. tauto.
  - apply Nat.eqb_neq in E. rewrite filter_all_false; [reflexivity|]. intros i _.
    destruct (i + n <=? length s)%nat eqn:E1; [|reflexivity]. apply Nat.leb_le in E1. cbn [andb].
    destruct (list_eqb (slice i n s) g) eqn:E2; [|reflexivity]. apply list_eqb_spec in E2.
    exfalso. apply E. rewrite <- E2. apply slice_length. exact E1.
Qed.

Fixpoint natsum (l : list nat) : nat := match l with [] => 0%nat | x :: l' => (x + natsum l')%nat end.

Lemma count_occ_flat_map {A} (F : A -> list (list Z)) l g :
  count_occ gram_dec (flat_map F l) g = natsum (map (fun x => count_occ gram_dec (F x) g) l).
Proof. induction l as [|x l IH]; [reflexivity|]. cbn [flat_map map natsum]. rewrite count_occ_app, IH. reflexivity. Qed.

Lemma natsum_indicator {A} (Q : A -> bool) l :
  natsum (map (fun x => if Q x then 1%nat else 0%nat) l) = length (filter Q l).
Proof. induction l as [|x l IH]; [reflexivity|]. cbn. rewrite IH. destruct (Q x); reflexivity. Qed.

Lemma filter_seq_unique (Q : nat -> bool) j0 a n :
  (forall j, Q j = true -> j = j0) ->
  length (filter Q (seq a n)) = if ((a <=? j0) && (j0 <? a + n))%nat && Q j0 then 1%nat else 0%nat.
Proof.
  intros HQ. revert a. induction n as [|n IH]; intros a; cbn [seq filter].
  - destruct (Nat.leb_spec a j0), (Nat.ltb_spec j0 (a + 0)); cbn [andb length]; try reflexivity; lia.
  - destruct (Q a) eqn:E; cbn [length]; rewrite IH.
    + apply HQ in E as Ea. subst a. rewrite E.
      destruct (Nat.leb_spec (S j0) j0), (Nat.leb_spec j0 j0), (Nat.ltb_spec j0 (j0 + S n)); cbn [andb]; try lia.
    + destruct (Nat.leb_spec (S a) j0), (Nat.ltb_spec j0 (S a + n)), (Nat.leb_spec a j0), (Nat.ltb_spec j0 (a + S n));
        cbn [andb]; try reflexivity; try lia.
      assert (a = j0) by lia. subst a. rewrite E. reflexivity.
Qed.

Theorem count_occ_ngrams_subgrams s n g :
  count_occ gram_dec (ngrams_of s n Subgrams) g
  = if ((1 <=? length g) && (length g <=? n))%nat then occurrences s g else 0%nat.
Proof.
  unfold ngrams_of. rewrite count_occ_flat_map.
  rewrite (map_ext _ (fun i => if ((1 <=? length g) && (length g <=? n))%nat && run_at s g i then 1%nat else 0%nat)).
  - destruct ((1 <=? length g) && (length g <=? n))%nat; cbn [andb].
    + apply natsum_indicator.
    + induction (seq 0 (length s)) as [|x l IHl]; [reflexivity|exact IHl].
  - intros i. rewrite (count_occ_flat_map_sing (fun j => (i + j <=? length s)%nat) (fun j => slice i j s)).
    rewrite (filter_seq_unique _ (length g)).
    + replace (1 <=? length g)%nat with (1 <=? length g)%nat by reflexivity.
      replace (length g <? 1 + n)%nat with (length g <=? n)%nat
        by (destruct (Nat.leb_spec (length g) n), (Nat.ltb_spec (length g) (1 + n)); reflexivity || lia).
      destruct ((1 <=? length g) && (length g <=? n))%nat; cbn [andb]; [|reflexivity].
      replace ((i + length g <=? length s)%nat && list_eqb (slice i (length g) s) g) with (run_at s g i); [reflexivity|].
      apply eq_true_iff_eq. rewrite andb_true_iff, Nat.leb_le, list_eqb_spec, run_at_spec. tauto.
    + intros j Hj. apply andb_true_iff in Hj. destruct Hj as [H1 H2]. apply Nat.leb_le in H1.
      apply list_eqb_spec in H2. rewrite <- H2. symmetry. apply slice_length. exact H1.
Qed.
