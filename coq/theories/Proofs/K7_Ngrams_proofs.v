From Coq Require Import ZArith List Lia Bool Permutation Arith.
From VZ Require Import Model.K10_Assembly Model.K7_Ngrams Proofs.K10_Assembly_proofs.
Import ListNotations.
Open Scope Z_scope.

(* ================= specification side: runs, occurrences ================= *)
(* the run of n consecutive elements starting at position i, element by element *)
Definition run {A} (d : A) (s : list A) (i n : nat) : list A := map (fun j => nth (i + j)%nat s d) (seq 0 n).

(* does g occur at position p of s? *)
Definition run_at (s g : list Z) (p : nat) : bool :=
  (p + length g <=? length s)%nat && forallb (fun j => nth (p + j)%nat s 0 =? nth j g 0) (seq 0 (length g)).

(* the number of positions at which g occurs in s *)
Definition occurrences (s g : list Z) : nat := length (filter (run_at s g) (seq 0 (length s))).

Definition gram_dec := list_eq_dec Z.eq_dec.

(* ================= list helpers ================= *)
Lemma filter_all_true {A} (P : A -> bool) l : (forall x, In x l -> P x = true) -> filter P l = l.
Proof.
  induction l as [|x l IH]; intros H; [reflexivity|]. cbn. rewrite (H x) by (left; reflexivity).
  f_equal. apply IH. intros y Hy. apply H. right. exact Hy.
Qed.

Lemma filter_all_false {A} (P : A -> bool) l : (forall x, In x l -> P x = false) -> filter P l = [].
Proof.
  induction l as [|x l IH]; intros H; [reflexivity|]. cbn. rewrite (H x) by (left; reflexivity).
  apply IH. intros y Hy. apply H. right. exact Hy.
Qed.

Lemma filter_seq_prefix (P : nat -> bool) a k k' :
  (k' <= k)%nat -> (forall j, (a <= j < a + k')%nat -> P j = true) ->
  (forall j, (a + k' <= j < a + k)%nat -> P j = false) -> filter P (seq a k) = seq a k'.
Proof.
  intros Hk Ht Hf. replace k with (k' + (k - k'))%nat by lia. rewrite seq_app, filter_app.
  rewrite filter_all_true by (intros j Hj; apply in_seq in Hj; apply Ht; lia).
  rewrite filter_all_false by (intros j Hj; apply in_seq in Hj; apply Hf; lia).
  apply app_nil_r.
Qed.

Lemma flat_map_cond {A B} (P : A -> bool) (f : A -> B) l :
  flat_map (fun i => if P i then [f i] else []) l = map f (filter P l).
Proof. induction l as [|x l IH]; [reflexivity|]. cbn. destruct (P x); cbn; rewrite IH; reflexivity. Qed.

Lemma slice_length {A} i n (s : list A) : (i + n <= length s)%nat -> length (slice i n s) = n.
Proof. intros H. unfold slice. rewrite firstn_length, skipn_length. lia. Qed.

Lemma slice_nth {A} (d : A) i n (s : list A) k : (k < n)%nat -> nth k (slice i n s) d = nth (i + k) s d.
Proof. intros H. unfold slice. rewrite k10_nth_firstn by exact H. apply k10_nth_skipn. Qed.

Lemma run_length {A} (d : A) s i n : length (run d s i n) = n.
Proof. unfold run. rewrite map_length, seq_length. reflexivity. Qed.

Lemma nth_map_seq {B} (f : nat -> B) (d : B) a n k : (k < n)%nat -> nth k (map f (seq a n)) d = f (a + k)%nat.
Proof.
  revert a k. induction n as [|n IH]; intros a k H; [lia|]. destruct k as [|k]; cbn [seq map nth].
  - f_equal. lia.
  - rewrite IH by lia. f_equal. lia.
Qed.

Lemma run_nth {A} (d : A) s i n k : (k < n)%nat -> nth k (run d s i n) d = nth (i + k) s d.
Proof. intros H. unfold run. rewrite nth_map_seq by exact H. reflexivity. Qed.

Lemma slice_run {A} (d : A) (s : list A) i n : (i + n <= length s)%nat -> slice i n s = run d s i n.
Proof.
  intros H. apply (nth_ext _ _ d d).
  - rewrite slice_length, run_length by exact H. reflexivity.
  - intros k Hk. rewrite slice_length in Hk by exact H. rewrite slice_nth, run_nth by exact Hk. reflexivity.
Qed.

(* ================= ngrams_of: pointwise specification ================= *)
Theorem ngrams_exact_spec {A} (d : A) (s : list A) n :
  (1 <= n)%nat -> ngrams_of s n Exact = map (fun i => run d s i n) (seq 0 (length s + 1 - n)).
Proof.
  intros Hn. unfold ngrams_of. rewrite (flat_map_cond (fun i => (i + n <=? length s)%nat) (fun i => slice i n s)).
  rewrite (filter_seq_prefix _ 0 (length s) (length s + 1 - n)).
  - apply map_ext_in. intros i Hi. apply in_seq in Hi. apply slice_run. lia.
  - lia.
  - intros j Hj. apply Nat.leb_le. lia.
  - intros j Hj. apply Nat.leb_gt. lia.
Qed.

Theorem ngrams_subgrams_spec {A} (d : A) (s : list A) n :
  ngrams_of s n Subgrams
  = flat_map (fun i => map (fun j => run d s i j) (seq 1 (Nat.min n (length s - i)))) (seq 0 (length s)).
Proof.
  unfold ngrams_of. apply flat_map_ext. intros i.
  rewrite (flat_map_cond (fun j => (i + j <=? length s)%nat) (fun j => slice i j s)).
  rewrite (filter_seq_prefix _ 1 n (Nat.min n (length s - i))).
  - apply map_ext_in. intros j Hj. apply in_seq in Hj. apply slice_run. lia.
  - lia.
  - intros j Hj. apply Nat.leb_le. lia.
  - intros j Hj. apply Nat.leb_gt. lia.
Qed.

Lemma map_flat_map {A B C} (g : B -> C) (f : A -> list B) l :
  map g (flat_map f l) = flat_map (fun x => map g (f x)) l.
Proof. induction l as [|x l IH]; [reflexivity|]. cbn. rewrite map_app, IH. reflexivity. Qed.

Lemma ngrams_of_map {A B} (f : A -> B) (s : list A) n b :
  ngrams_of (map f s) n b = map (map f) (ngrams_of s n b).
Proof.
  assert (Hs : forall i j, slice i j (map f s) = map f (slice i j s)).
  { intros i j. unfold slice. rewrite <- firstn_map, <- skipn_map. reflexivity. }
  unfold ngrams_of. rewrite map_length, map_flat_map.
  apply flat_map_ext. intros i. destruct b.
  - destruct (i + n <=? length s)%nat; [cbn; rewrite Hs; reflexivity|reflexivity].
  - rewrite map_flat_map. apply flat_map_ext. intros j.
    destruct (i + j <=? length s)%nat; [cbn; rewrite Hs; reflexivity|reflexivity].
Qed.

(* ================= counting occurrences ================= *)
Lemma list_eqb_spec x y : list_eqb x y = true <-> x = y.
Proof.
  revert y. induction x as [|a x IH]; intros [|b y]; cbn; try (split; [discriminate|discriminate]); [tauto|].
  rewrite andb_true_iff, Z.eqb_eq, IH. split; [intros [-> ->]; reflexivity|intros [= -> ->]; tauto].
Qed.

Lemma run_at_spec s g p : run_at s g p = true <-> (p + length g <= length s)%nat /\ slice p (length g) s = g.
Proof.
  unfold run_at. rewrite andb_true_iff, Nat.leb_le, forallb_forall. split.
  - intros [Hl Hf]. split; [exact Hl|]. rewrite (slice_run 0) by exact Hl. apply (nth_ext _ _ 0 0).
    + apply run_length.
    + intros k Hk. rewrite run_length in Hk. rewrite run_nth by exact Hk. apply Z.eqb_eq, Hf. apply in_seq. lia.
  - intros [Hl He]. split; [exact Hl|]. intros j Hj. apply in_seq in Hj. apply Z.eqb_eq.
    transitivity (nth j (slice p (length g) s) 0); [symmetry; apply slice_nth; lia|rewrite He; reflexivity].
Qed.

Lemma count_occ_flat_map_sing (P : nat -> bool) (f : nat -> list Z) l g :
  count_occ gram_dec (flat_map (fun i => if P i then [f i] else []) l) g
  = length (filter (fun i => P i && list_eqb (f i) g) l).
Proof.
  induction l as [|x l IH]; [reflexivity|]. cbn [flat_map filter]. rewrite count_occ_app, IH.
  destruct (P x); cbn [andb]; [|reflexivity].
  destruct (list_eqb (f x) g) eqn:E.
  - apply list_eqb_spec in E. rewrite E. cbn [count_occ]. destruct (gram_dec g g); [reflexivity|congruence].
  - cbn [count_occ]. destruct (gram_dec (f x) g) as [Heq|]; [|reflexivity].
    apply list_eqb_spec in Heq. congruence.
Qed.

Lemma filter_length_ext {A} (P Q : A -> bool) l :
  (forall x, In x l -> P x = Q x) -> length (filter P l) = length (filter Q l).
Proof. intros H. rewrite (filter_ext_in P Q l H). reflexivity. Qed.

Theorem count_occ_ngrams_exact s n g :
  (1 <= n)%nat ->
  count_occ gram_dec (ngrams_of s n Exact) g = if (length g =? n)%nat then occurrences s g else 0%nat.
Proof.
  intros Hn. unfold ngrams_of.
  rewrite (count_occ_flat_map_sing (fun i => (i + n <=? length s)%nat) (fun i => slice i n s)).
  destruct (length g =? n)%nat eqn:E.
  - apply Nat.eqb_eq in E. unfold occurrences. apply filter_length_ext. intros i _.
    apply eq_true_iff_eq. rewrite andb_true_iff, Nat.leb_le, list_eqb_spec, run_at_spec, E. tauto.
  - apply Nat.eqb_neq in E. rewrite filter_all_false; [reflexivity|]. intros i _.
    destruct (i + n <=? length s)%nat eqn:E1; [|reflexivity]. apply Nat.leb_le in E1. cbn [andb].
    destruct (list_eqb (slice i n s) g) eqn:E2; [|reflexivity]. apply list_eqb_spec in E2.
    exfalso. apply E. rewrite <- E2. apply slice_length. exact E1.
Qed.

Fixpoint natsum (l : list nat) : nat := match l with [] => 0%nat | x :: l' => (x + natsum l')%nat end.

Lemma count_occ_flat_map {A} (F : A -> list (list Z)) l g :
  count_occ gram_dec (flat_map F l) g = natsum (map (fun x => count_occ gram_dec (F x) g) l).
Proof. induction l as [|x l IH]; [reflexivity|]. cbn [flat_map map natsum]. rewrite count_occ_app, IH. reflexivity. Qed.

Lemma natsum_indicator {A} (Q : A -> bool) l :
  natsum (map (fun x => if Q x then 1%nat else 0%nat) l) = length (filter Q l).
Proof. induction l as [|x l IH]; [reflexivity|]. cbn. rewrite IH. destruct (Q x); reflexivity. Qed.

Lemma filter_seq_unique (Q : nat -> bool) j0 a n :
  (forall j, Q j = true -> j = j0) ->
  length (filter Q (seq a n)) = if ((a <=? j0) && (j0 <? a + n))%nat && Q j0 then 1%nat else 0%nat.
Proof.
  intros HQ. revert a. induction n as [|n IH]; intros a; cbn [seq filter].
  - destruct (Nat.leb_spec a j0), (Nat.ltb_spec j0 (a + 0)); cbn [andb length]; try reflexivity; lia.
  - destruct (Q a) eqn:E; cbn [length]; rewrite IH.
    + apply HQ in E as Ea. subst a. rewrite E.
      destruct (Nat.leb_spec (S j0) j0), (Nat.leb_spec j0 j0), (Nat.ltb_spec j0 (j0 + S n)); cbn [andb]; try lia.
    + destruct (Nat.leb_spec (S a) j0), (Nat.ltb_spec j0 (S a + n)), (Nat.leb_spec a j0), (Nat.ltb_spec j0 (a + S n));
        cbn [andb]; try reflexivity; try lia.
      assert (a = j0) by lia. subst a. rewrite E. reflexivity.
Qed.

Theorem count_occ_ngrams_subgrams s n g :
  count_occ gram_dec (ngrams_of s n Subgrams) g
  = if ((1 <=? length g) && (length g <=? n))%nat then occurrences s g else 0%nat.
Proof.
  unfold ngrams_of. rewrite count_occ_flat_map.
  rewrite (map_ext _ (fun i => if ((1 <=? length g) && (length g <=? n))%nat && run_at s g i then 1%nat else 0%nat)).
  - destruct ((1 <=? length g) && (length g <=? n))%nat; cbn [andb].
    + apply natsum_indicator.
    + induction (seq 0 (length s)) as [|x l IHl]; [reflexivity|exact IHl].
  - intros i. rewrite (count_occ_flat_map_sing (fun j => (i + j <=? length s)%nat) (fun j => slice i j s)).
    rewrite (filter_seq_unique _ (length g)).
    + replace (1 <=? length g)%nat with (1 <=? length g)%nat by reflexivity.
      replace (length g <? 1 + n)%nat with (length g <=? n)%nat
        by (destruct (Nat.leb_spec (length g) n), (Nat.ltb_spec (length g) (1 + n)); reflexivity || lia).
      destruct ((1 <=? length g) && (length g <=? n))%nat; cbn [andb]; [|reflexivity].
      replace ((i + length g <=? length s)%nat && list_eqb (slice i (length g) s) g) with (run_at s g i); [reflexivity|].
      apply eq_true_iff_eq. rewrite andb_true_iff, Nat.leb_le, list_eqb_spec, run_at_spec. tauto.
    + intros j Hj. apply andb_true_iff in Hj. destruct Hj as [H1 H2]. apply Nat.leb_le in H1.
      apply list_eqb_spec in H2. rewrite <- H2. symmetry. apply slice_length. exact H1.
Qed.

(* ================= the counter of one document ================= *)
Definition get (counter : dict) (c : Z) : Z := match lookup c counter with Some v => v | None => 0 end.

Lemma get_incr c counter c' : get (incr c counter) c' = get counter c' + (if c' =? c then 1 else 0).
Proof.
  unfold get, lookup. induction counter as [|[k v] r IH]; cbn [incr alookup].
  - rewrite (Z.eqb_sym c c'). destruct (c' =? c); reflexivity.
  - destruct (k =? c) eqn:E; cbn [alookup].
    + apply Z.eqb_eq in E. subst k. rewrite (Z.eqb_sym c c'). destruct (c' =? c); lia.
    + destruct (k =? c') eqn:E2.
      * apply Z.eqb_eq in E2. subst k. rewrite E. lia.
      * exact IH.
Qed.

Lemma incr_keys c counter x : In x (map fst (incr c counter)) <-> x = c \/ In x (map fst counter).
Proof.
  induction counter as [|[k v] r IH]; cbn [incr map fst In]; [intuition|].
  destruct (k =? c) eqn:E; cbn [map fst In].
  - apply Z.eqb_eq in E. subst. intuition.
  - rewrite IH. intuition.
Qed.

Lemma incr_NoDup c counter : NoDup (map fst counter) -> NoDup (map fst (incr c counter)).
Proof.
  induction counter as [|[k v] r IH]; cbn [incr map fst]; intros ND.
  - constructor; [intros []|constructor].
  - inversion ND as [|? ? Hn ND']; subst. destruct (k =? c) eqn:E; cbn [map fst].
    + constructor; assumption.
    + apply Z.eqb_neq in E. constructor; [|apply IH; exact ND'].
      intros H. apply incr_keys in H. destruct H as [->|H]; [congruence|tauto].
Qed.

Definition cols_of (inv : dict) (cold : gdict) (grams : list (list Z)) : list Z :=
  flat_map (fun g => match col_of inv cold g with Some c => [c] | None => [] end) grams.

Lemma count_doc_gen inv cold grams ctr0 :
  let ctr := fold_left (fun counter g => match col_of inv cold g with Some c => incr c counter | None => counter end)
                       grams ctr0 in
  (forall c, get ctr c = get ctr0 c + Z.of_nat (count_occ Z.eq_dec (cols_of inv cold grams) c)) /\
  (NoDup (map fst ctr0) -> NoDup (map fst ctr)) /\
  (forall c, In c (map fst ctr) -> In c (map fst ctr0) \/ In c (cols_of inv cold grams)).
Proof.
  revert ctr0. induction grams as [|g grams IH]; intros ctr0; cbn [fold_left cols_of flat_map].
  - repeat split; [intros c; cbn; lia|tauto|tauto].
  - fold (cols_of inv cold grams). destruct (col_of inv cold g) as [c0|].
    + specialize (IH (incr c0 ctr0)). cbv zeta in IH. destruct IH as [IH1 [IH2 IH3]]. repeat split.
      * intros c. rewrite IH1, get_incr. cbn [app count_occ].
        destruct (Z.eq_dec c0 c) as [->|Hne]; [rewrite Z.eqb_refl; lia|].
        replace (c =? c0) with false by (symmetry; apply Z.eqb_neq; congruence). lia.
      * intros ND. apply IH2, incr_NoDup, ND.
      * intros c Hc. apply IH3 in Hc. cbn [app In]. rewrite incr_keys in Hc. intuition.
    + specialize (IH ctr0). cbv zeta in IH. destruct IH as [IH1 [IH2 IH3]]. repeat split; assumption.
Qed.

Lemma count_doc_get inv cold grams c :
  get (count_doc inv cold grams) c = Z.of_nat (count_occ Z.eq_dec (cols_of inv cold grams) c).
Proof. unfold count_doc. destruct (count_doc_gen inv cold grams []) as [H _]. rewrite H. reflexivity. Qed.

Lemma count_doc_NoDup inv cold grams : NoDup (map fst (count_doc inv cold grams)).
Proof. unfold count_doc. destruct (count_doc_gen inv cold grams []) as [_ [H _]]. apply H. constructor. Qed.

Lemma count_doc_keys inv cold grams c :
  In c (map fst (count_doc inv cold grams)) -> In c (cols_of inv cold grams).
Proof.
  unfold count_doc. destruct (count_doc_gen inv cold grams []) as [_ [_ H]]. intros Hc.
  destruct (H c Hc) as [[]|H']. exact H'.
Qed.

Lemma lookup_not_key k d : ~ In k (map fst d) -> lookup k d = None.
Proof.
  intros H. destruct (lookup k d) as [v|] eqn:E; [|reflexivity]. exfalso. apply H.
  apply lookup_In in E. change k with (fst (k, v)). apply in_map. exact E.
Qed.

Lemma row_sum_get counter j :
  NoDup (map fst counter) -> sumZ (map (fun cv => if fst cv =? j then snd cv else 0) counter) = get counter j.
Proof.
  induction counter as [|[k v] r IH]; intros ND; [reflexivity|]. inversion ND as [|? ? Hn ND']; subst.
  cbn [map sumZ fst snd]. rewrite (IH ND'). unfold get, lookup; cbn [alookup].
  destruct (k =? j) eqn:E; [|reflexivity]. apply Z.eqb_eq in E. subst k.
  fold (lookup j r). rewrite (lookup_not_key _ _ Hn). lia.
Qed.

Lemma ng_transform_cell_cols M docs i j :
  (i < length docs)%nat ->
  cell (entries (ng_transform M docs)) (Z.of_nat i) j
  = Z.of_nat (count_occ Z.eq_dec (cols_of (ng_inv M) (ng_cold M) (doc_grams M (nth i docs []))) j).
Proof.
  intros Hi. unfold ng_transform, entries; cbn [snd].
  rewrite (cell_by_rows (fun i' => count_doc (ng_inv M) (ng_cold M) (doc_grams M (nth i' docs [])))
                        (fun _ cv => fst cv) (fun _ cv => snd cv)).
  replace ((0 <=? i) && (i <? 0 + length docs))%nat with true
    by (symmetry; apply andb_true_iff; split; [apply Nat.leb_le|apply Nat.ltb_lt]; lia).
  rewrite row_sum_get by apply count_doc_NoDup. apply count_doc_get.
Qed.

(* ================= from token indices back to labels ================= *)
Definition gram_key (G : list Z) : gkey := match G with [l] => Bare l | _ => Tup G end.
Definition known (tokdict : dict) (doc : list Z) : list Z := filter (tok_known tokdict) doc.
Definition idx_of (tokdict : dict) (l : Z) : Z := match lookup l tokdict with Some i => i | None => 0 end.
Definition inverse_ok (tokdict inv : dict) : Prop := forall l i, lookup l tokdict = Some i -> lookup i inv = Some l.
Definition gdict_inj (d : gdict) : Prop := forall k k' v, glookup k d = Some v -> glookup k' d = Some v -> k = k'.

Lemma gkey_eqb_spec x y : gkey_eqb x y = true <-> x = y.
Proof.
  destruct x as [a|g], y as [b|h]; cbn; try (split; discriminate).
  - rewrite Z.eqb_eq. split; [intros ->; reflexivity|intros [= ->]; reflexivity].
  - rewrite list_eqb_spec. split; [intros ->; reflexivity|intros [= ->]; reflexivity].
Qed.

Lemma glookup_In k v d : glookup k d = Some v -> In (k, v) d.
Proof. apply (alookup_In gkey_eqb gkey_eqb_spec). Qed.
Lemma glookup_key k d : In k (map fst d) -> exists v, glookup k d = Some v.
Proof. apply (alookup_key gkey_eqb gkey_eqb_spec). Qed.
Lemma NoDup_values_ginj d : NoDup (map snd d) -> gdict_inj d.
Proof. intros ND k k' v. apply (alookup_inj gkey_eqb gkey_eqb_spec). exact ND. Qed.

Lemma kept_known tokdict doc : kept tokdict doc = map (idx_of tokdict) (known tokdict doc).
Proof.
  unfold kept, known, idx_of, tok_known. induction doc as [|t doc IH]; [reflexivity|]. cbn [flat_map filter].
  destruct (lookup t tokdict) as [i|] eqn:E; cbn [is_some].
  - cbn [map app]. rewrite E, IH. reflexivity.
  - exact IH.
Qed.

Lemma known_Forall tokdict doc : Forall (fun l => tok_known tokdict l = true) (known tokdict doc).
Proof. apply Forall_forall. intros l H. apply filter_In in H. tauto. Qed.

Lemma map_opt_known tokdict inv G :
  inverse_ok tokdict inv -> Forall (fun l => tok_known tokdict l = true) G ->
  map_opt (fun i => lookup i inv) (map (idx_of tokdict) G) = Some G.
Proof.
  intros W. induction G as [|l G IH]; intros HF; [reflexivity|]. inversion HF as [|? ? Hl HG]; subst.
  cbn [map map_opt]. rewrite (IH HG). unfold tok_known in Hl. unfold idx_of.
  destruct (lookup l tokdict) as [i|] eqn:E; [|discriminate]. rewrite (W l i E). reflexivity.
Qed.

Lemma token_gram_known tokdict inv G :
  inverse_ok tokdict inv -> Forall (fun l => tok_known tokdict l = true) G ->
  token_gram inv (map (idx_of tokdict) G) = Some (gram_key G).
Proof.
  intros W HF. pose proof (map_opt_known tokdict inv G W HF) as H.
  destruct G as [|l [|l2 G]].
  - reflexivity.
  - cbn [map token_gram gram_key]. cbn [map map_opt] in H.
    destruct (lookup (idx_of tokdict l) inv) as [x|]; [|discriminate]. injection H as ->. reflexivity.
  - cbn [map token_gram gram_key]. cbn [map] in H. rewrite H. reflexivity.
Qed.

Lemma gram_key_inj G G' : gram_key G = gram_key G' -> G = G'.
Proof.
  destruct G as [|a [|a2 G]], G' as [|b [|b2 G']]; cbn; intros H; try discriminate; try (injection H; congruence).
  reflexivity.
Qed.

Lemma gram_key_not_tup1 G l : gram_key G <> Tup [l].
Proof. destruct G as [|a [|a2 G]]; cbn; congruence. Qed.

Definition label_cols (cold : gdict) (LG : list (list Z)) : list Z :=
  flat_map (fun G => match glookup (gram_key G) cold with Some c => [c] | None => [] end) LG.

Lemma cols_of_labels tokdict inv cold LG :
  inverse_ok tokdict inv -> Forall (Forall (fun l => tok_known tokdict l = true)) LG ->
  cols_of inv cold (map (map (idx_of tokdict)) LG) = label_cols cold LG.
Proof.
  intros W. unfold cols_of, label_cols, col_of. induction LG as [|G LG IH]; intros HF; [reflexivity|].
  inversion HF as [|? ? HG HLG]; subst. cbn [map flat_map]. rewrite (token_gram_known _ _ _ W HG), (IH HLG). reflexivity.
Qed.

Lemma label_cols_count cold LG G0 c0 :
  gdict_inj cold -> glookup (gram_key G0) cold = Some c0 ->
  count_occ Z.eq_dec (label_cols cold LG) c0 = count_occ gram_dec LG G0.
Proof.
  intros Hinj H0. unfold label_cols. induction LG as [|G LG IH]; [reflexivity|]. cbn [flat_map].
  rewrite count_occ_app, IH. destruct (gram_dec G G0) as [->|Hne].
  - rewrite H0. cbn [count_occ]. destruct (Z.eq_dec c0 c0); [|congruence].
    destruct (gram_dec G0 G0); [reflexivity|congruence].
  - rewrite (count_occ_cons_neq gram_dec _ Hne).
    destruct (glookup (gram_key G) cold) as [c|] eqn:E; [|reflexivity]. cbn [count_occ].
    destruct (Z.eq_dec c c0) as [->|]; [|reflexivity].
    exfalso. apply Hne. apply gram_key_inj. eapply Hinj; eassumption.
Qed.

Lemma label_cols_tup1 cold LG l c0 :
  gdict_inj cold -> glookup (Tup [l]) cold = Some c0 -> count_occ Z.eq_dec (label_cols cold LG) c0 = 0%nat.
Proof.
  intros Hinj H0. unfold label_cols. induction LG as [|G LG IH]; [reflexivity|]. cbn [flat_map].
  rewrite count_occ_app, IH. destruct (glookup (gram_key G) cold) as [c|] eqn:E; [|reflexivity]. cbn [count_occ].
  destruct (Z.eq_dec c c0) as [->|]; [|reflexivity].
  exfalso. apply (gram_key_not_tup1 G l). eapply Hinj; eassumption.
Qed.

Lemma In_slice {A} (x : A) i n s : In x (slice i n s) -> In x s.
Proof. unfold slice. intros H. eapply In_skipn, In_firstn, H. Qed.

Lemma ngrams_of_Forall {A} (P : A -> Prop) (s : list A) n b :
  Forall P s -> Forall (Forall P) (ngrams_of s n b).
Proof.
  intros Hs. rewrite Forall_forall in Hs. apply Forall_forall. intros G HG. apply Forall_forall. intros x Hx.
  apply Hs. unfold ngrams_of in HG. apply in_flat_map in HG. destruct HG as [i [_ HG]]. destruct b.
  - destruct (i + n <=? length s)%nat; [|destruct HG]. destruct HG as [<-|[]]. eapply In_slice, Hx.
  - apply in_flat_map in HG. destruct HG as [j [_ HG]].
    destruct (i + j <=? length s)%nat; [|destruct HG]. destruct HG as [<-|[]]. eapply In_slice, Hx.
Qed.

Definition ng_wf (M : ng_model) : Prop := inverse_ok (ng_tokdict M) (ng_inv M) /\ gdict_inj (ng_cold M).

Definition label_grams (M : ng_model) (doc : list Z) : list (list Z) :=
  ngrams_of (known (ng_tokdict M) doc) (ng_n M) (ng_beh M).

Lemma doc_grams_labels M doc :
  doc_grams M doc = map (map (idx_of (ng_tokdict M))) (label_grams M doc).
Proof. unfold doc_grams, label_grams. rewrite kept_known. apply ngrams_of_map. Qed.

Lemma ng_cols_labels M doc :
  ng_wf M -> cols_of (ng_inv M) (ng_cold M) (doc_grams M doc) = label_cols (ng_cold M) (label_grams M doc).
Proof.
  intros [W _]. rewrite doc_grams_labels. apply cols_of_labels; [exact W|].
  apply ngrams_of_Forall, known_Forall.
Qed.

(* the entry of column c0 = glookup (key G0): the number of occurrences of the label gram G0 among the n-grams of
   the kept tokens of document i *)
Theorem ng_cell M docs i G0 c0 :
  ng_wf M -> (i < length docs)%nat -> glookup (gram_key G0) (ng_cold M) = Some c0 ->
  cell (entries (ng_transform M docs)) (Z.of_nat i) c0
  = Z.of_nat (count_occ gram_dec (label_grams M (nth i docs [])) G0).
Proof.
  intros W Hi H0. rewrite ng_transform_cell_cols by exact Hi. rewrite (ng_cols_labels _ _ W). f_equal.
  apply label_cols_count; [apply W|exact H0].
Qed.

(* a column keyed by a 1-tuple is never incremented (the known finding) *)
Theorem ng_cell_tuple1 M docs i l c0 :
  ng_wf M -> (i < length docs)%nat -> glookup (Tup [l]) (ng_cold M) = Some c0 ->
  cell (entries (ng_transform M docs)) (Z.of_nat i) c0 = 0.
Proof.
  intros W Hi H0. rewrite ng_transform_cell_cols by exact Hi. rewrite (ng_cols_labels _ _ W).
  rewrite (label_cols_tup1 _ _ l c0); [reflexivity|apply W|exact H0].
Qed.

(* ---- C01: shape, index range, unseen tokens ---- *)
Lemma cols_of_in_cold inv cold grams c : In c (cols_of inv cold grams) -> In c (map snd cold).
Proof.
  unfold cols_of, col_of. intros H. apply in_flat_map in H. destruct H as [g [_ H]].
  destruct (token_gram inv g) as [k|]; [|destruct H]. destruct (glookup k cold) as [c'|] eqn:E; [|destruct H].
  destruct H as [<-|[]]. apply glookup_In in E. change c' with (snd (k, c')). apply in_map. exact E.
Qed.

Theorem ng_transform_in_range M docs t :
  Forall (fun kv => 0 <= snd kv < Z.of_nat (length (ng_cold M))) (ng_cold M) ->
  In t (entries (ng_transform M docs)) ->
  0 <= trow t < nrows (ng_transform M docs) /\ 0 <= tcol t < ncols (ng_transform M docs).
Proof.
  intros W Ht. unfold ng_transform, entries, nrows, ncols in *; cbn [fst snd] in *.
  apply in_flat_map in Ht. destruct Ht as [i [Hi Ht]]. apply in_seq in Hi.
  apply in_map_iff in Ht. destruct Ht as [[c v] [<- Hcv]]. unfold trow, tcol; cbn [fst snd]. split; [lia|].
  assert (Hc : In c (map snd (ng_cold M))).
  { eapply cols_of_in_cold, count_doc_keys. change c with (fst (c, v)). apply in_map. exact Hcv. }
  apply in_map_iff in Hc. destruct Hc as [kv [<- Hkv]]. rewrite Forall_forall in W. apply (W _ Hkv).
Qed.

Theorem ng_transform_strip M docs :
  ng_transform M (map (filter (tok_known (ng_tokdict M))) docs) = ng_transform M docs.
Proof.
  unfold ng_transform. rewrite map_length. f_equal. apply flat_map_ext. intros i. f_equal. f_equal.
  change [] with (filter (tok_known (ng_tokdict M)) []) at 1. rewrite map_nth.
  unfold doc_grams. rewrite kept_strip. reflexivity.
Qed.

(* ================= dictionaries learned without pruning ================= *)
Lemma invert_fst d : map fst (invert d) = map snd d.
Proof. unfold invert. rewrite map_map. reflexivity. Qed.
Lemma invert_snd d : map snd (invert d) = map fst d.
Proof. unfold invert. rewrite map_map. reflexivity. Qed.

Lemma invert_inverse_ok d : NoDup (map snd d) -> inverse_ok d (invert d).
Proof.
  intros ND l i H. apply lookup_NoDup_In; [rewrite invert_fst; exact ND|].
  apply lookup_In in H. unfold invert. apply in_map_iff. exists (l, i). split; [reflexivity|exact H].
Qed.

Lemma learn_tokdict_known docs d t : In d docs -> In t d -> tok_known (learn_tokdict docs) t = true.
Proof.
  intros Hd Ht. unfold tok_known, learn_tokdict.
  destruct (learned_lookup (concat docs) t) as [i Hi]; [apply in_concat; eauto|]. rewrite Hi. reflexivity.
Qed.

Lemma learn_tokdict_known_doc docs d : In d docs -> known (learn_tokdict docs) d = d.
Proof. intros Hd. unfold known. apply filter_all_true. intros t Ht. eapply learn_tokdict_known; eassumption. Qed.

Lemma glookup_bare_dict d k : glookup k (bare_dict d) = match k with Bare l => lookup l d | Tup _ => None end.
Proof.
  unfold glookup, lookup, bare_dict. induction d as [|[l' v] d IH]; cbn [map alookup fst snd]; [destruct k; reflexivity|].
  destruct k as [l|g]; cbn [gkey_eqb]; [|exact IH]. destruct (l' =? l); [reflexivity|exact IH].
Qed.

Lemma bare_dict_snd d : map snd (bare_dict d) = map snd d.
Proof. unfold bare_dict. rewrite map_map. reflexivity. Qed.

Lemma learn_coldict_inj tokdict inv n b docs : NoDup (map snd tokdict) -> gdict_inj (learn_coldict tokdict inv n b docs).
Proof.
  intros ND. apply NoDup_values_ginj. unfold learn_coldict. destruct (n =? 1)%nat.
  - rewrite bare_dict_snd. exact ND.
  - rewrite map_snd_combine by (rewrite !map_length, seq_length; reflexivity). apply NoDup_nat_seq_Z.
Qed.

Lemma label_of_idx tokdict inv l :
  inverse_ok tokdict inv -> tok_known tokdict l = true -> label_of inv (idx_of tokdict l) = l.
Proof.
  intros W H. unfold tok_known in H. unfold label_of, idx_of.
  destruct (lookup l tokdict) as [i|] eqn:E; [|discriminate]. rewrite (W l i E). reflexivity.
Qed.

Lemma learn_coldict_has tokdict inv n b docs d G0 :
  inverse_ok tokdict inv -> (n <> 1)%nat -> In d docs -> known tokdict d = d -> In G0 (ngrams_of d n b) ->
  exists c, glookup (Tup G0) (learn_coldict tokdict inv n b docs) = Some c.
Proof.
  intros W Hn Hd Hk HG. apply glookup_key. unfold learn_coldict.
  replace (n =? 1)%nat with false by (symmetry; apply Nat.eqb_neq; exact Hn).
  rewrite map_fst_combine by (rewrite !map_length, seq_length; reflexivity).
  set (g := map (idx_of tokdict) G0).
  assert (HF : Forall (fun l => tok_known tokdict l = true) G0).
  { pose proof (ngrams_of_Forall (fun l => tok_known tokdict l = true) d n b) as H.
    rewrite <- Hk in H at 1. specialize (H (known_Forall tokdict d)). rewrite Forall_forall in H. apply H, HG. }
  assert (Hg : map (label_of inv) g = G0).
  { unfold g. rewrite map_map. rewrite <- (map_id G0) at 2. apply map_ext_in. intros l Hl.
    rewrite Forall_forall in HF. apply label_of_idx; [exact W|apply HF, Hl]. }
  rewrite <- Hg. apply in_map_iff. exists g. split; [reflexivity|].
  eapply Permutation_in; [apply Permutation_sym, isort_by_perm|]. apply nodup_In.
  apply in_concat. exists (ngrams_of (kept tokdict d) n b). split.
  - apply in_map_iff. exists d. split; [reflexivity|exact Hd].
  - rewrite kept_known, Hk, ngrams_of_map. apply in_map. exact HG.
Qed.

Lemma ngrams_1_length {A} (s : list A) b G : In G (ngrams_of s 1 b) -> length G = 1%nat.
Proof.
  unfold ngrams_of. intros H. apply in_flat_map in H. destruct H as [i [_ H]]. destruct b.
  - destruct (i + 1 <=? length s)%nat eqn:E; [|destruct H]. destruct H as [<-|[]].
    apply slice_length. apply Nat.leb_le. exact E.
  - cbn [seq flat_map] in H. rewrite app_nil_r in H.
    destruct (i + 1 <=? length s)%nat eqn:E; [|destruct H]. destruct H as [<-|[]].
    apply slice_length. apply Nat.leb_le. exact E.
Qed.

Lemma ng_fit_learned_wf n b docs : ng_wf (fst (ng_fit None None n b docs)).
Proof.
  unfold ng_fit, ng_wf, ng_tokdict, ng_inv, ng_cold; cbn [fst snd]. split.
  - apply invert_inverse_ok. apply enum_dict_values_NoDup.
  - apply learn_coldict_inj. apply enum_dict_values_NoDup.
Qed.

Theorem ng_fit_learned_cell docs n b d G0 i :
  In d docs -> In G0 (ngrams_of d n b) -> (n = 1%nat \/ length G0 <> 1%nat) -> (i < length docs)%nat ->
  exists c0, glookup (gram_key G0) (ng_cold (fst (ng_fit None None n b docs))) = Some c0 /\
             cell (entries (snd (ng_fit None None n b docs))) (Z.of_nat i) c0
             = Z.of_nat (count_occ gram_dec (ngrams_of (nth i docs []) n b) G0).
Proof.
  intros Hd HG Hlen Hi.
  pose proof (ng_fit_learned_wf n b docs) as W.
  assert (Hex : exists c0, glookup (gram_key G0) (ng_cold (fst (ng_fit None None n b docs))) = Some c0).
  { unfold ng_fit, ng_cold; cbn [fst snd]. destruct (Nat.eq_dec n 1) as [->|Hn].
    - pose proof (ngrams_1_length _ _ _ HG) as HL. destruct G0 as [|l [|l2 G0]]; try discriminate.
      cbn [gram_key]. unfold learn_coldict. cbn [Nat.eqb]. rewrite glookup_bare_dict.
      apply lookup_key. unfold learn_tokdict. rewrite enum_dict_keys. apply sort_uniq_In. apply in_concat.
      exists d. split; [exact Hd|]. pose proof (ngrams_of_Forall (fun x => In x d) d 1 b) as HF.
      assert (Hall : Forall (fun x => In x d) d) by (apply Forall_forall; tauto).
      specialize (HF Hall). rewrite Forall_forall in HF. specialize (HF _ HG). inversion HF; assumption.
    - destruct Hlen as [->|Hlen]; [congruence|].
      replace (gram_key G0) with (Tup G0) by (destruct G0 as [|l [|l2 G0]]; cbn in *; congruence).
      apply (learn_coldict_has _ _ n b docs d G0); try assumption.
      + apply invert_inverse_ok, enum_dict_values_NoDup.
      + apply learn_tokdict_known_doc. exact Hd. }
  destruct Hex as [c0 H0]. exists c0. split; [exact H0|].
  unfold ng_fit at 1; cbn [snd]. fold (fst (ng_fit None None n b docs)).
  change (ng_transform _ docs) with (ng_transform (fst (ng_fit None None n b docs)) docs).
  rewrite (ng_cell _ docs i G0 c0 W Hi H0). f_equal. unfold label_grams.
  unfold ng_fit, ng_tokdict, ng_n, ng_beh; cbn [fst snd].
  rewrite learn_tokdict_known_doc by (apply nth_In; exact Hi). reflexivity.
Qed.

(* ================= unigram models and '+' ================= *)
Lemma nth_map_in {A B} (f : A -> B) (l : list A) (d : A) (d' : B) k :
  (k < length l)%nat -> nth k (map f l) d' = f (nth k l d).
Proof.
  revert k. induction l as [|x l IH]; intros k H; cbn in H; [lia|]. destruct k as [|k]; [reflexivity|].
  cbn. apply IH. lia.
Qed.

Lemma ngrams_1_exact {A} (s : list A) : ngrams_of s 1 Exact = map (fun x => [x]) s.
Proof.
  destruct s as [|d0 s0]; [reflexivity|]. set (s := d0 :: s0).
  rewrite (ngrams_exact_spec d0) by lia. replace (length s + 1 - 1)%nat with (length s) by lia.
  apply (nth_ext _ _ [] []).
  - rewrite !map_length, seq_length. reflexivity.
  - intros k Hk. rewrite map_length, seq_length in Hk. rewrite nth_map_seq by exact Hk.
    rewrite (nth_map_in _ s d0) by exact Hk.
    unfold run. cbn [seq map]. rewrite Nat.add_0_r. reflexivity.
Qed.

Lemma ngrams_1_subgrams {A} (s : list A) : ngrams_of s 1 Subgrams = ngrams_of s 1 Exact.
Proof. unfold ngrams_of. apply flat_map_ext. intros i. cbn [seq flat_map]. apply app_nil_r. Qed.

Lemma ngrams_1 {A} (s : list A) b : ngrams_of s 1 b = map (fun x => [x]) s.
Proof. destruct b; [|rewrite ngrams_1_subgrams]; apply ngrams_1_exact. Qed.

Lemma count_occ_singletons s l : count_occ gram_dec (map (fun x => [x]) s) [l] = count_occ Z.eq_dec s l.
Proof.
  induction s as [|x s IH]; [reflexivity|]. cbn [map count_occ].
  destruct (gram_dec [x] [l]) as [E|E], (Z.eq_dec x l) as [E'|E']; try congruence.
Qed.

(* lookup in an enumerated dictionary is the position *)
Lemma lookup_combine_seq ls a l :
  lookup l (combine ls (map Z.of_nat (seq a (length ls)))) = option_map (fun k => Z.of_nat a + k) (index_of l ls).
Proof.
  unfold lookup. revert a. induction ls as [|x ls IH]; intros a; [reflexivity|].
  cbn [length seq map combine alookup index_of]. destruct (x =? l); [cbn [option_map]; f_equal; lia|].
  rewrite IH. destruct (index_of l ls); cbn [option_map]; [f_equal; lia|reflexivity].
Qed.

Lemma lookup_enum_dict ls l : lookup l (enum_dict ls) = index_of l ls.
Proof. unfold enum_dict. rewrite lookup_combine_seq. destruct (index_of l ls); cbn [option_map]; [f_equal; lia|reflexivity]. Qed.

Lemma index_of_In x l : In x l -> exists k, index_of x l = Some k.
Proof.
  intros H. destruct (index_of x l) as [k|] eqn:E; [eauto|]. exfalso. eapply index_of_None; eassumption.
Qed.

Lemma index_of_app_l x l1 l2 : In x l1 -> index_of x (l1 ++ l2) = index_of x l1.
Proof.
  induction l1 as [|y l1 IH]; [intros []|]. intros H. cbn [app index_of]. destruct (y =? x) eqn:E; [reflexivity|].
  apply Z.eqb_neq in E. destruct H as [H|H]; [congruence|]. rewrite (IH H). reflexivity.
Qed.

Lemma index_of_app_r x l1 l2 :
  ~ In x l1 -> index_of x (l1 ++ l2) = option_map (fun k => Z.of_nat (length l1) + k) (index_of x l2).
Proof.
  induction l1 as [|y l1 IH]; intros H.
  - cbn [app length option_map]. destruct (index_of x l2); cbn [option_map]; [f_equal; lia|reflexivity].
  - cbn [app index_of length]. destruct (y =? x) eqn:E; [apply Z.eqb_eq in E; exfalso; apply H; left; exact E|].
    rewrite IH by (intros Hx; apply H; right; exact Hx). destruct (index_of x l2); cbn [option_map]; [f_equal; lia|reflexivity].
Qed.

Lemma index_of_inj l x y k : index_of x l = Some k -> index_of y l = Some k -> x = y.
Proof. intros Hx Hy. apply index_of_Some in Hx, Hy. destruct Hx as [_ <-], Hy as [_ <-]. reflexivity. Qed.

Definition enum_idx (ls : list Z) : dict := invert (enum_dict ls).

Lemma invert_combine {A B} (l : list A) (l' : list B) :
  map (fun kv => (snd kv, fst kv)) (combine l l') = combine l' l.
Proof. revert l'. induction l as [|x l IH]; intros [|y l']; cbn; try reflexivity. rewrite IH. reflexivity. Qed.

Lemma invert_invert d : invert (invert d) = d.
Proof. unfold invert. rewrite map_map. rewrite <- (map_id d) at 2. apply map_ext. intros [a b]. reflexivity. Qed.

Lemma combine_app {A B} (l1 l2 : list A) (m1 m2 : list B) :
  length l1 = length m1 -> combine (l1 ++ l2) (m1 ++ m2) = combine l1 m1 ++ combine l2 m2.
Proof.
  revert m1. induction l1 as [|x l1 IH]; intros [|y m1] H; cbn in *; try discriminate; [reflexivity|].
  rewrite IH by lia. reflexivity.
Qed.

Lemma enum_idx_app la ord :
  enum_idx (la ++ ord)
  = enum_idx la ++ combine (map (fun i => Z.of_nat (length (enum_idx la)) + Z.of_nat i) (seq 0 (length ord))) ord.
Proof.
  unfold enum_idx, invert, enum_dict. rewrite !invert_combine. rewrite app_length, seq_app, map_app.
  rewrite combine_app by (rewrite map_length, seq_length; reflexivity). f_equal.
  rewrite combine_length, map_length, seq_length, Nat.min_id. cbn [Nat.add].
  rewrite (seq_add_map (length la)), map_map. f_equal. apply map_ext. intros i. lia.
Qed.

Lemma enum_dict_range ls : Forall (fun kv => 0 <= snd kv < Z.of_nat (length ls)) (enum_dict ls).
Proof.
  apply Forall_forall. intros [k v] H. cbn.
  assert (Hv : In v (map snd (enum_dict ls))) by (change v with (snd (k, v)); apply in_map; exact H).
  rewrite enum_dict_values in Hv. apply in_map_iff in Hv. destruct Hv as [x [<- Hx]]. apply in_seq in Hx. lia.
Qed.

Definition uni_wf (m : uni_model) (ls : list Z) : Prop :=
  NoDup ls /\ u_idx m = enum_idx ls /\ u_lab m = enum_dict ls.

(* m is a unigram model with columns ls whose training matrix holds the token counts of the corpus X *)
Definition counts_ok (m : uni_model) (ls : list Z) (X : list (list Z)) : Prop :=
  uni_wf m ls /\
  nrows (u_train m) = Z.of_nat (length X) /\ ncols (u_train m) = Z.of_nat (length ls) /\
  (forall t, In t (entries (u_train m)) ->
             0 <= trow t < Z.of_nat (length X) /\ 0 <= tcol t < Z.of_nat (length ls)) /\
  (forall d t, In d X -> In t d -> In t ls) /\
  (forall i l j, (i < length X)%nat -> index_of l ls = Some j ->
                 cell (entries (u_train m)) (Z.of_nat i) j = Z.of_nat (count_occ Z.eq_dec (nth i X []) l)).

Lemma uni_ng_wf ls b m : uni_wf m ls -> ng_wf (uni_as_ng m b).
Proof.
  intros [ND [Hi Hl]]. unfold ng_wf, uni_as_ng, ng_tokdict, ng_inv, ng_cold; cbn [fst snd]. rewrite Hi, Hl. split.
  - apply invert_inverse_ok, enum_dict_values_NoDup.
  - apply NoDup_values_ginj. rewrite bare_dict_snd. apply enum_dict_values_NoDup.
Qed.

(* transform of a (fitted or merged) unigram model: token counts over its columns, unseen tokens ignored *)
Theorem uni_transform_cell m ls b X i l j :
  uni_wf m ls -> (i < length X)%nat -> index_of l ls = Some j ->
  cell (entries (ng_transform (uni_as_ng m b) X)) (Z.of_nat i) j = Z.of_nat (count_occ Z.eq_dec (nth i X []) l).
Proof.
  intros W Hi Hj. pose proof (uni_ng_wf ls b m W) as Wn. destruct W as [ND [Hidx Hlab]].
  rewrite (ng_cell _ X i [l] j Wn Hi).
  - f_equal. unfold label_grams, uni_as_ng, ng_tokdict, ng_n, ng_beh; cbn [fst snd].
    rewrite ngrams_1, count_occ_singletons. rewrite Hlab. unfold known.
    induction (nth i X []) as [|t d IH]; [reflexivity|]. cbn [filter]. unfold tok_known at 1.
    rewrite lookup_enum_dict. destruct (Z.eq_dec t l) as [->|Hne].
    + rewrite Hj. cbn [is_some count_occ]. destruct (Z.eq_dec l l); [|congruence]. rewrite IH. reflexivity.
    + cbn [count_occ]. destruct (Z.eq_dec t l); [congruence|].
      destruct (index_of t ls); cbn [is_some]; [cbn [count_occ]; destruct (Z.eq_dec t l); [congruence|]|]; exact IH.
  - cbn [gram_key]. unfold uni_as_ng, ng_cold; cbn [fst snd]. rewrite glookup_bare_dict, Hlab, lookup_enum_dict. exact Hj.
Qed.

Lemma uni_transform_shape m ls b X :
  uni_wf m ls ->
  nrows (ng_transform (uni_as_ng m b) X) = Z.of_nat (length X) /\
  ncols (ng_transform (uni_as_ng m b) X) = Z.of_nat (length ls) /\
  (forall t, In t (entries (ng_transform (uni_as_ng m b) X)) ->
             0 <= trow t < Z.of_nat (length X) /\ 0 <= tcol t < Z.of_nat (length ls)).
Proof.
  intros [ND [Hidx Hlab]].
  assert (Hlen : length (ng_cold (uni_as_ng m b)) = length ls).
  { unfold uni_as_ng, ng_cold, bare_dict; cbn [fst snd]. rewrite map_length, Hlab. apply enum_dict_length. }
  assert (Hn : nrows (ng_transform (uni_as_ng m b) X) = Z.of_nat (length X)) by reflexivity.
  assert (Hc : ncols (ng_transform (uni_as_ng m b) X) = Z.of_nat (length ls))
    by (unfold ng_transform, ncols; cbn [fst snd]; rewrite Hlen; reflexivity).
  split; [exact Hn|]. split; [exact Hc|]. intros t Ht. rewrite <- Hn, <- Hc.
  apply ng_transform_in_range; [|exact Ht]. rewrite Hlen.
  unfold uni_as_ng, ng_cold, bare_dict; cbn [fst snd]. rewrite Hlab. apply Forall_forall. intros kv Hkv.
  apply in_map_iff in Hkv. destruct Hkv as [kv' [<- Hkv']]. cbn [snd].
  pose proof (enum_dict_range ls) as HR. rewrite Forall_forall in HR. apply (HR _ Hkv').
Qed.

Theorem uni_fit_counts_ok X : counts_ok (uni_fit X) (sort_uniq (concat X)) X.
Proof.
  set (ls := sort_uniq (concat X)).
  assert (W : uni_wf (uni_fit X) ls).
  { unfold uni_wf, uni_fit, ng_fit, ng_inv, ng_tokdict, u_idx, u_lab; cbn [fst snd].
    split; [apply sort_uniq_NoDup|]. split; reflexivity. }
  assert (Htrain : u_train (uni_fit X) = ng_transform (uni_as_ng (uni_fit X) Exact) X) by reflexivity.
  destruct (uni_transform_shape (uni_fit X) ls Exact X W) as [Hn [Hc Hr]].
  unfold counts_ok. rewrite Htrain. split; [exact W|]. split; [exact Hn|]. split; [exact Hc|]. split; [exact Hr|]. split.
  - intros d t Hd Ht. apply sort_uniq_In. apply in_concat. eauto.
  - intros i l j Hi Hj. apply (uni_transform_cell _ ls); assumption.
Qed.

(* ---------------- __add__ ---------------- *)
Lemma map_opt_total {A B} (f : A -> option B) (g : A -> B) l :
  (forall x, In x l -> f x = Some (g x)) -> map_opt f l = Some (map g l).
Proof.
  induction l as [|x l IH]; intros H; [reflexivity|]. cbn [map_opt map].
  rewrite (H x) by (left; reflexivity). rewrite IH by (intros y Hy; apply H; right; exact Hy). reflexivity.
Qed.

Lemma lookup_map_values (F : Z -> Z) (d : dict) k :
  In k (map snd d) -> lookup k (map (fun kv => (snd kv, F (snd kv))) d) = Some (F k).
Proof.
  unfold lookup. induction d as [|[l v] d IH]; cbn [map snd In alookup fst]; [tauto|].
  destruct (v =? k) eqn:E; [apply Z.eqb_eq in E; subst; reflexivity|].
  apply Z.eqb_neq in E. intros [H|H]; [congruence|]. apply IH, H.
Qed.

Lemma memZ_In x l : memZ x l = true <-> In x l.
Proof.
  unfold memZ. rewrite existsb_exists. split.
  - intros [y [Hy E]]. apply Z.eqb_eq in E. subst. exact Hy.
  - intros H. exists x. split; [exact H|apply Z.eqb_refl].
Qed.

Lemma disjoint_vocab_wf a la b lb :
  uni_wf a la -> uni_wf b lb -> disjoint_vocab a b = filter (fun l => negb (memZ l la)) lb.
Proof.
  intros [_ [Ha _]] [NDb [Hb _]]. unfold disjoint_vocab. rewrite Ha, Hb. unfold enum_idx.
  rewrite !invert_snd, !enum_dict_keys. rewrite (nodup_fixed_point Z.eq_dec NDb). reflexivity.
Qed.

Definition rho (lb lc : list Z) (jb : Z) : Z :=
  match index_of (nth (Z.to_nat jb) lb 0) lc with Some jc => jc | None => 0 end.

Lemma In_enum_dict ls l j : In (l, j) (enum_dict ls) -> (0 <= j < Z.of_nat (length ls)) /\ l = nth (Z.to_nat j) ls 0.
Proof.
  unfold enum_dict. assert (G : forall a, In (l, j) (combine ls (map Z.of_nat (seq a (length ls)))) ->
    Z.of_nat a <= j < Z.of_nat a + Z.of_nat (length ls) /\ l = nth (Z.to_nat j - a) ls 0).
  { induction ls as [|x ls IH]; intros a; cbn [length seq map combine In]; [tauto|].
    intros [[= -> <-]|H].
    - split; [lia|]. replace (Z.to_nat (Z.of_nat a) - a)%nat with 0%nat by lia. reflexivity.
    - apply IH in H. destruct H as [H1 H2]. split; [lia|].
      replace (Z.to_nat j - a)%nat with (S (Z.to_nat j - S a)) by lia. exact H2. }
  intros H. apply G in H. rewrite Nat.sub_0_r in H. destruct H as [H1 H2]. split; [lia|exact H2].
Qed.

Lemma NoDup_app_intro {A} (l1 l2 : list A) :
  NoDup l1 -> NoDup l2 -> (forall x, In x l1 -> ~ In x l2) -> NoDup (l1 ++ l2).
Proof.
  induction l1 as [|x l1 IH]; intros N1 N2 H; [exact N2|]. inversion N1 as [|? ? Hn N1']; subst.
  cbn [app]. constructor.
  - intros Hin. apply in_app_or in Hin. destruct Hin as [Hin|Hin]; [tauto|]. apply (H x); [left; reflexivity|exact Hin].
  - apply IH; [exact N1'|exact N2|]. intros y Hy. apply H. right. exact Hy.
Qed.

Lemma perm_disjoint_facts la lb ord :
  NoDup la -> NoDup lb -> Permutation ord (filter (fun l => negb (memZ l la)) lb) ->
  NoDup (la ++ ord) /\ (forall l, In l (la ++ ord) <-> In l la \/ In l lb).
Proof.
  intros NDa NDb P.
  assert (Hord : forall l, In l ord <-> In l lb /\ ~ In l la).
  { intros l. split.
    - intros H. apply (Permutation_in _ P) in H. apply filter_In in H. destruct H as [H1 H2]. split; [exact H1|].
      intros Hla. apply memZ_In in Hla. rewrite Hla in H2. discriminate.
    - intros [H1 H2]. apply (Permutation_in _ (Permutation_sym P)). apply filter_In. split; [exact H1|].
      destruct (memZ l la) eqn:E; [apply memZ_In in E; tauto|reflexivity]. }
  split.
  - apply NoDup_app_intro; [exact NDa| |].
    + eapply Permutation_NoDup; [apply Permutation_sym, P|]. apply NoDup_filter. exact NDb.
    + intros x Hx Ho. apply Hord in Ho. tauto.
  - intros l. rewrite in_app_iff, Hord. destruct (in_dec Z.eq_dec l la); tauto.
Qed.

Lemma trow_mk (r c v : Z) : trow (r, c, v) = r. Proof. reflexivity. Qed.
Lemma tcol_mk (r c v : Z) : tcol (r, c, v) = c. Proof. reflexivity. Qed.
Lemma tval_mk (r c v : Z) : tval (r, c, v) = v. Proof. reflexivity. Qed.
Lemma nrows_mk r c (e : list triple) : nrows (r, c, e) = r. Proof. reflexivity. Qed.
Lemma ncols_mk r c (e : list triple) : ncols (r, c, e) = c. Proof. reflexivity. Qed.
Lemma entries_mk r c (e : list triple) : entries (r, c, e) = e. Proof. reflexivity. Qed.

Theorem ng_add_counts_ok ord a la Xa b lb Xb :
  counts_ok a la Xa -> counts_ok b lb Xb -> Permutation ord (disjoint_vocab a b) ->
  exists c, ng_add ord a b = Ok c /\ counts_ok c (la ++ ord) (Xa ++ Xb).
Proof.
  intros [Wa [Hna [Hca [Hra [Hta Hcella]]]]] [Wb [Hnb [Hcb [Hrb [Htb Hcellb]]]]] P.
  rewrite (disjoint_vocab_wf a la b lb Wa Wb) in P.
  destruct Wa as [NDa [Hia Hla]]. destruct Wb as [NDb [Hib Hlb]].
  destruct (perm_disjoint_facts la lb ord NDa NDb P) as [NDc Hin].
  set (lc := la ++ ord) in *.
  assert (Hlc : length lc = (length la + length ord)%nat) by (unfold lc; apply app_length).
  unfold ng_add. set (ta := u_train a) in *. set (tb := u_train b) in *. clearbody ta tb.
  rewrite Hia, Hlb. rewrite <- enum_idx_app. fold lc.
  replace (invert (enum_idx lc)) with (enum_dict lc) by (unfold enum_idx; rewrite invert_invert; reflexivity).
  (* right_to_joint_index_map *)
  rewrite (map_opt_total _ (fun kv => (snd kv, rho lb lc (snd kv)))).
  2:{ intros [l jb] Hkv. cbn [fst snd]. apply In_enum_dict in Hkv. destruct Hkv as [Hjb ->].
      rewrite lookup_enum_dict. unfold rho.
      destruct (index_of_In (nth (Z.to_nat jb) lb 0) lc) as [jc Hjc].
      { apply Hin. right. apply nth_In. lia. }
      rewrite Hjc. reflexivity. }
  (* the relabelled bottom block *)
  rewrite (map_opt_total _ (fun t => (trow t + nrows ta, rho lb lc (tcol t), tval t))).
  2:{ intros t Ht. rewrite lookup_map_values; [reflexivity|].
      rewrite enum_dict_values. apply in_map_iff. exists (Z.to_nat (tcol t)).
      destruct (Hrb t Ht) as [_ Hc]. split; [lia|]. apply in_seq. lia. }
  eexists. split; [reflexivity|].
  assert (Hlenc : length (enum_idx lc) = length lc).
  { unfold enum_idx, invert. rewrite map_length. apply enum_dict_length. }
  (* facts about rho *)
  assert (Hrho : forall k l, (k < length lb)%nat -> nth k lb 0 = l ->
                  index_of l lc = Some (rho lb lc (Z.of_nat k))).
  { intros k l Hk Hl. unfold rho. rewrite Nat2Z.id, Hl.
    destruct (index_of_In l lc) as [jc Hjc]; [apply Hin; right; rewrite <- Hl; apply nth_In; exact Hk|].
    rewrite Hjc. reflexivity. }
  unfold counts_ok, uni_wf, u_idx, u_lab, u_train; cbn [fst snd].
  split; [split; [exact NDc|split; reflexivity]|].
  split; [rewrite nrows_mk, Hna, Hnb, app_length; lia|].
  split; [rewrite ncols_mk, Hlenc; reflexivity|].
  split; [|split].
  - (* every entry lies inside the merged shape *)
    intros t Ht. rewrite entries_mk in Ht. apply in_app_or in Ht. rewrite app_length.
    destruct Ht as [Ht|Ht].
    + destruct (Hra t Ht). lia.
    + apply in_map_iff in Ht. destruct Ht as [u [<- Hu]]. destruct (Hrb u Hu) as [Hr Hc].
      rewrite trow_mk, tcol_mk, Hna. split; [lia|].
      pose proof (Hrho (Z.to_nat (tcol u)) _ ltac:(lia) eq_refl) as Hx. rewrite Z2Nat.id in Hx by lia.
      apply index_of_Some in Hx. lia.
  - intros d t Hd Ht. apply Hin. apply in_app_or in Hd. destruct Hd as [Hd|Hd]; [left; eapply Hta|right; eapply Htb]; eassumption.
  - (* the cells *)
    intros i l j Hi Hj. rewrite app_length in Hi. rewrite entries_mk, cell_app.
    set (bottom := map (fun t => (trow t + nrows ta, rho lb lc (tcol t), tval t)) (entries tb)).
    destruct (Nat.ltb_spec i (length Xa)) as [Hlt|Hge].
    + (* a row of the left model *)
      rewrite app_nth1 by exact Hlt.
      rewrite (cell_zero bottom).
      2:{ intros t Ht. apply in_map_iff in Ht. destruct Ht as [u [<- Hu]]. destruct (Hrb u Hu) as [Hr _].
          unfold at_coord. rewrite trow_mk, Hna.
          replace (trow u + Z.of_nat (length Xa) =? Z.of_nat i) with false; [reflexivity|].
          symmetry. apply Z.eqb_neq. lia. }
      rewrite Z.add_0_r. destruct (in_dec Z.eq_dec l la) as [Hl|Hl].
      * apply Hcella; [exact Hlt|]. unfold lc in Hj. rewrite index_of_app_l in Hj by exact Hl. exact Hj.
      * unfold lc in Hj. rewrite index_of_app_r in Hj by exact Hl.
        destruct (index_of l ord) as [k|] eqn:Ek; [|discriminate]. injection Hj as <-.
        apply index_of_Some in Ek. rewrite cell_zero.
        -- replace (count_occ Z.eq_dec (nth i Xa []) l) with 0%nat; [reflexivity|].
           symmetry. apply count_occ_not_In. intros Hc. apply Hl. eapply Hta; [|exact Hc]. apply nth_In. exact Hlt.
        -- intros t Ht. destruct (Hra t Ht) as [_ Hc]. unfold at_coord.
           replace (tcol t =? Z.of_nat (length la) + k) with false; [apply andb_false_r|].
           symmetry. apply Z.eqb_neq. lia.
    + (* a row of the right model *)
      rewrite app_nth2 by exact Hge.
      rewrite (cell_zero (entries ta)).
      2:{ intros t Ht. destruct (Hra t Ht) as [Hr _]. unfold at_coord.
          replace (trow t =? Z.of_nat i) with false; [reflexivity|]. symmetry. apply Z.eqb_neq. lia. }
      rewrite Z.add_0_l. set (i' := (i - length Xa)%nat).
      unfold bottom. rewrite cell_sum, map_map.
      destruct (index_of l lb) as [jb|] eqn:Eb.
      * rewrite <- (Hcellb i' l jb) by (exact Eb || lia). rewrite cell_sum. apply sumZ_map_ext. intros t Ht.
        destruct (Hrb t Ht) as [Hr Hc]. unfold at_coord. rewrite trow_mk, tcol_mk, tval_mk, Hna.
        replace (trow t + Z.of_nat (length Xa) =? Z.of_nat i) with (trow t =? Z.of_nat i')
          by (apply eq_true_iff_eq; rewrite !Z.eqb_eq; unfold i'; lia).
        replace (rho lb lc (tcol t) =? j) with (tcol t =? jb); [reflexivity|].
        apply eq_true_iff_eq. rewrite !Z.eqb_eq.
        pose proof (Hrho (Z.to_nat (tcol t)) _ ltac:(lia) eq_refl) as Hx. rewrite Z2Nat.id in Hx by lia.
        pose proof (index_of_Some _ _ _ Eb) as [Hjb Hnb'].
        split.
        -- intros E. rewrite E in Hx. rewrite Hnb' in Hx. congruence.
        -- intros E. rewrite <- E in Hj. pose proof (index_of_inj _ _ _ _ Hx Hj) as E2.
           rewrite <- E2 in Eb. rewrite index_of_nth in Eb; [|exact NDb|lia]. injection Eb as Eb'. lia.
      * rewrite sumZ_map_zero.
        -- replace (count_occ Z.eq_dec (nth i' Xb []) l) with 0%nat; [reflexivity|].
           symmetry. apply count_occ_not_In. intros Hc. apply (index_of_None _ _ Eb).
           eapply Htb; [|exact Hc]. apply nth_In. unfold i'. lia.
        -- intros t Ht. destruct (Hrb t Ht) as [Hr Hc]. unfold at_coord. rewrite tcol_mk.
           replace (rho lb lc (tcol t) =? j) with false; [rewrite andb_false_r; reflexivity|].
           symmetry. apply Z.eqb_neq. intros E.
           pose proof (Hrho (Z.to_nat (tcol t)) _ ltac:(lia) eq_refl) as Hx. rewrite Z2Nat.id in Hx by lia.
           rewrite E in Hx. pose proof (index_of_inj _ _ _ _ Hx Hj) as E2.
           apply (index_of_None _ _ Eb). rewrite <- E2. apply nth_In. lia.
Qed.

Lemma ngrams_exact_length {A} (s : list A) n G : In G (ngrams_of s n Exact) -> length G = n.
Proof.
  unfold ngrams_of. intros H. apply in_flat_map in H. destruct H as [i [_ H]].
  destruct (i + n <=? length s)%nat eqn:E; [|destruct H]. destruct H as [<-|[]].
  apply slice_length. apply Nat.leb_le. exact E.
Qed.

Lemma ngrams_subgrams_length {A} (s : list A) n G : In G (ngrams_of s n Subgrams) -> (1 <= length G <= n)%nat.
Proof.
  unfold ngrams_of. intros H. apply in_flat_map in H. destruct H as [i [_ H]].
  apply in_flat_map in H. destruct H as [j [Hj H]]. apply in_seq in Hj.
  destruct (i + j <=? length s)%nat eqn:E; [|destruct H]. destruct H as [<-|[]].
  rewrite slice_length by (apply Nat.leb_le; exact E). lia.
Qed.

(* two NoDup lists with the same elements have the same length *)
Lemma NoDup_same_length (l1 l2 : list Z) :
  NoDup l1 -> NoDup l2 -> (forall x, In x l1 <-> In x l2) -> length l1 = length l2.
Proof. intros N1 N2 H. apply Permutation_length. apply NoDup_Permutation; assumption. Qed.

(* '+' of two models fitted without pruning vs. one model fitted on the concatenated corpora *)
Theorem add_vs_concat Xa Xb ord c :
  Permutation ord (disjoint_vocab (uni_fit Xa) (uni_fit Xb)) ->
  ng_add ord (uni_fit Xa) (uni_fit Xb) = Ok c ->
  let la := sort_uniq (concat Xa) in let lb := sort_uniq (concat Xb) in
  let lc := la ++ ord in let lf := sort_uniq (concat (Xa ++ Xb)) in
  let f := uni_fit (Xa ++ Xb) in
  counts_ok c lc (Xa ++ Xb) /\
  (forall l, In l lc <-> In l la \/ In l lb) /\
  (forall l, In l lc <-> In l lf) /\
  nrows (u_train c) = nrows (u_train f) /\ ncols (u_train c) = ncols (u_train f) /\
  (forall i l jc jf, (i < length (Xa ++ Xb))%nat -> index_of l lc = Some jc -> index_of l lf = Some jf ->
     cell (entries (u_train c)) (Z.of_nat i) jc = cell (entries (u_train f)) (Z.of_nat i) jf).
Proof.
  intros P Hadd la lb lc lf f.
  pose proof (uni_fit_counts_ok Xa) as Ca. pose proof (uni_fit_counts_ok Xb) as Cb.
  pose proof (uni_fit_counts_ok (Xa ++ Xb)) as Cf. fold la in Ca. fold lb in Cb. fold lf f in Cf.
  destruct (ng_add_counts_ok ord _ la Xa _ lb Xb Ca Cb P) as [c' [Hc' Cc]].
  rewrite Hadd in Hc'. injection Hc' as <-. fold lc in Cc.
  assert (NDa : NoDup la) by apply sort_uniq_NoDup. assert (NDb : NoDup lb) by apply sort_uniq_NoDup.
  assert (P' : Permutation ord (filter (fun l => negb (memZ l la)) lb)).
  { rewrite <- (disjoint_vocab_wf (uni_fit Xa) la (uni_fit Xb) lb); [exact P|apply Ca|apply Cb]. }
  destruct (perm_disjoint_facts la lb ord NDa NDb P') as [NDc Hin]. fold lc in NDc, Hin.
  assert (Hsame : forall l, In l lc <-> In l lf).
  { intros l. rewrite Hin. unfold la, lb, lf. rewrite !sort_uniq_In, concat_app, in_app_iff. reflexivity. }
  split; [exact Cc|]. split; [exact Hin|]. split; [exact Hsame|].
  destruct Cc as [_ [Hnc [Hcc [_ [_ Hcellc]]]]]. destruct Cf as [_ [Hnf [Hcf [_ [_ Hcellf]]]]].
  split; [rewrite Hnc, Hnf; reflexivity|]. split.
  - rewrite Hcc, Hcf. f_equal. apply NoDup_same_length; [exact NDc|apply sort_uniq_NoDup|exact Hsame].
  - intros i l jc jf Hi Hjc Hjf. rewrite (Hcellc i l jc Hi Hjc), (Hcellf i l jf Hi Hjf). reflexivity.
Qed.
