(* Real-number facts used by K12 / K13: finite sums over lists, Cauchy-Schwarz, Minkowski (p = 2),
   the L1 / L2 distances between lists, ln x <= x - 1 and its termwise consequences (Gibbs). *)
From Coq Require Import Reals Lra List Psatz.
Import ListNotations.
Open Scope R_scope.

Fixpoint sumR (l : list R) : R := match l with [] => 0 | x :: t => x + sumR t end.

Fixpoint map2 {A B C : Type} (f : A -> B -> C) (xs : list A) (ys : list B) : list C :=
  match xs, ys with
  | x :: xs', y :: ys' => f x y :: map2 f xs' ys'
  | _, _ => []
  end.

Lemma map2_combine : forall (A B C : Type) (f : A -> B -> C) xs ys,
  map2 f xs ys = map (fun p => f (fst p) (snd p)) (combine xs ys).
Proof. induction xs; destruct ys; simpl; auto. f_equal. apply IHxs. Qed.

Lemma map2_length : forall (A B C : Type) (f : A -> B -> C) xs ys,
  length xs = length ys -> length (map2 f xs ys) = length xs.
Proof. induction xs; destruct ys; simpl; intros; try discriminate; auto. Qed.

Lemma fold_left_Rplus : forall l acc, fold_left Rplus l acc = acc + sumR l.
Proof. induction l; intros; simpl. lra. rewrite IHl. lra. Qed.

Lemma fold_left_sum : forall (A : Type) (f : A -> R) l acc,
  fold_left (fun a p => a + f p) l acc = acc + sumR (map f l).
Proof. induction l; intros; simpl. lra. rewrite IHl. lra. Qed.

Lemma sumR_app : forall a b, sumR (a ++ b) = sumR a + sumR b.
Proof. induction a; intros; simpl. lra. rewrite IHa. lra. Qed.

Lemma sumR_nonneg : forall l, Forall (fun x => 0 <= x) l -> 0 <= sumR l.
Proof. induction 1; simpl; lra. Qed.

Lemma sumR_pos : forall l, Forall (fun x => 0 <= x) l -> Exists (fun x => 0 < x) l -> 0 < sumR l.
Proof.
  induction l; intros Hn He; inversion He; subst; inversion Hn; subst; simpl.
  - pose proof (sumR_nonneg l H3). lra.
  - specialize (IHl H3 H0). lra.
Qed.

Lemma sumR_scal : forall c l, sumR (map (fun x => c * x) l) = c * sumR l.
Proof. induction l; simpl. lra. rewrite IHl. lra. Qed.

Lemma sumR_div : forall c l, sumR (map (fun x => x / c) l) = sumR l / c.
Proof. induction l; simpl. unfold Rdiv; lra. rewrite IHl. unfold Rdiv; lra. Qed.

Lemma sumR_map_ext_in : forall (A : Type) (f g : A -> R) l, (forall x, In x l -> f x = g x) -> sumR (map f l) = sumR (map g l).
Proof. intros. f_equal. apply map_ext_in. assumption. Qed.

Lemma sumR_le : forall (A : Type) (f g : A -> R) l, (forall x, In x l -> f x <= g x) -> sumR (map f l) <= sumR (map g l).
Proof.
  induction l; intros; simpl. lra.
  assert (f a <= g a) by (apply H; left; auto).
  assert (sumR (map f l) <= sumR (map g l)) by (apply IHl; intros; apply H; right; auto). lra.
Qed.

Lemma sumR_map_plus : forall (A : Type) (f g : A -> R) l, sumR (map (fun x => f x + g x) l) = sumR (map f l) + sumR (map g l).
Proof. induction l; simpl. lra. rewrite IHl. lra. Qed.

Lemma sumR_zero : forall l, Forall (fun x => x = 0) l -> sumR l = 0.
Proof. induction 1; simpl; lra. Qed.

(* ---- Cauchy-Schwarz over a list of pairs *)
Definition dotp (l : list (R * R)) : R := sumR (map (fun p => fst p * snd p) l).
Definition sq1 (l : list (R * R)) : R := sumR (map (fun p => fst p * fst p) l).
Definition sq2 (l : list (R * R)) : R := sumR (map (fun p => snd p * snd p) l).

Lemma sq1_nonneg : forall l, 0 <= sq1 l.
Proof. intros. apply sumR_nonneg. rewrite Forall_map. apply Forall_forall. intros. nra. Qed.
Lemma sq2_nonneg : forall l, 0 <= sq2 l.
Proof. intros. apply sumR_nonneg. rewrite Forall_map. apply Forall_forall. intros. nra. Qed.

Lemma quad_sum : forall l t,
  sumR (map (fun p => (fst p * t + snd p) * (fst p * t + snd p)) l) = sq1 l * t * t + 2 * dotp l * t + sq2 l.
Proof. unfold sq1, sq2, dotp. induction l; intros; simpl. ring. rewrite IHl. ring. Qed.

Lemma discriminant : forall P A Q, 0 <= P -> (forall t, 0 <= P * t * t + 2 * A * t + Q) -> A * A <= P * Q.
Proof.
  intros P A Q HP H. destruct (Req_dec P 0) as [HP0|HP0].
  - subst. destruct (Req_dec A 0) as [->|HA]; [lra|].
    specialize (H (- (Q + 1) / (2 * A))). exfalso.
    replace (0 * (- (Q + 1) / (2 * A)) * (- (Q + 1) / (2 * A)) + 2 * A * (- (Q + 1) / (2 * A)) + Q) with (-1) in H by (field; auto).
    lra.
  - assert (0 < P) by lra. specialize (H (- A / P)).
    replace (P * (- A / P) * (- A / P) + 2 * A * (- A / P) + Q) with ((P * Q - A * A) / P) in H by (field; auto).
    apply Rmult_le_compat_r with (r := P) in H; [|lra].
    unfold Rdiv in H. rewrite Rmult_assoc, Rinv_l in H by auto. lra.
Qed.

Lemma cauchy_schwarz : forall l, dotp l * dotp l <= sq1 l * sq2 l.
Proof.
  intros. apply discriminant. apply sq1_nonneg.
  intros t. rewrite <- quad_sum. apply sumR_nonneg. rewrite Forall_map. apply Forall_forall. intros p _. cbv beta.
  apply Rle_0_sqr.
Qed.

Lemma dotp_le_sqrt : forall l, dotp l <= sqrt (sq1 l) * sqrt (sq2 l).
Proof.
  intros. rewrite <- sqrt_mult by (apply sq1_nonneg || apply sq2_nonneg).
  destruct (Rle_dec 0 (dotp l)).
  - rewrite <- (sqrt_square (dotp l)) by auto. apply sqrt_le_1_alt. apply cauchy_schwarz.
  - pose proof (sqrt_pos (sq1 l * sq2 l)). lra.
Qed.

Lemma minkowski2 : forall l,
  sqrt (sumR (map (fun p => (fst p + snd p) * (fst p + snd p)) l)) <= sqrt (sq1 l) + sqrt (sq2 l).
Proof.
  intros.
  assert (E : sumR (map (fun p => (fst p + snd p) * (fst p + snd p)) l) = sq1 l + 2 * dotp l + sq2 l).
  { unfold sq1, sq2, dotp. induction l; simpl. ring. rewrite IHl. ring. }
  rewrite E. pose proof (dotp_le_sqrt l). pose proof (sq1_nonneg l). pose proof (sq2_nonneg l).
  pose proof (sqrt_pos (sq1 l)). pose proof (sqrt_pos (sq2 l)).
  rewrite <- (sqrt_square (sqrt (sq1 l) + sqrt (sq2 l))) by lra.
  apply sqrt_le_1_alt.
  replace ((sqrt (sq1 l) + sqrt (sq2 l)) * (sqrt (sq1 l) + sqrt (sq2 l)))
    with (sqrt (sq1 l) * sqrt (sq1 l) + 2 * (sqrt (sq1 l) * sqrt (sq2 l)) + sqrt (sq2 l) * sqrt (sq2 l)) by ring.
  rewrite !sqrt_sqrt by assumption. lra.
Qed.

(* ---- L1 and L2 distances between lists *)
Definition d1 (a b : list R) : R := sumR (map2 (fun x y => Rabs (x - y)) a b).
Definition d2 (a b : list R) : R := sqrt (sumR (map2 (fun x y => (x - y) * (x - y)) a b)).

Lemma d1_nonneg : forall a b, 0 <= d1 a b.
Proof. unfold d1. induction a; destruct b; simpl; try lra. pose proof (Rabs_pos (a - r)). specialize (IHa b). lra. Qed.
Lemma d1_sym : forall a b, d1 a b = d1 b a.
Proof. unfold d1. induction a; destruct b; simpl; auto. rewrite IHa, Rabs_minus_sym. reflexivity. Qed.
Lemma d1_refl : forall a, d1 a a = 0.
Proof. unfold d1. induction a; simpl; auto. rewrite IHa. unfold Rminus. rewrite Rplus_opp_r, Rabs_R0. lra. Qed.
Lemma d1_triangle : forall a b c, length a = length b -> length b = length c -> d1 a c <= d1 a b + d1 b c.
Proof.
  unfold d1. induction a; destruct b, c; simpl; intros; try discriminate; try lra.
  assert (Rabs (a - r0) <= Rabs (a - r) + Rabs (r - r0)).
  { replace (a - r0) with ((a - r) + (r - r0)) by lra. apply Rabs_triang. }
  specialize (IHa b c ltac:(lia) ltac:(lia)). lra.
Qed.

Lemma sumsq_nonneg : forall a b, 0 <= sumR (map2 (fun x y => (x - y) * (x - y)) a b).
Proof. induction a; destruct b; simpl; try lra. specialize (IHa b). pose proof (Rle_0_sqr (a - r)) as Hs. unfold Rsqr in Hs. lra. Qed.

Lemma d2_nonneg : forall a b, 0 <= d2 a b.
Proof. intros. apply sqrt_pos. Qed.
Lemma d2_sym : forall a b, d2 a b = d2 b a.
Proof.
  unfold d2. intros. f_equal. revert b. induction a; destruct b; simpl; auto. rewrite IHa. f_equal. ring.
Qed.
Lemma d2_refl : forall a, d2 a a = 0.
Proof.
  unfold d2. intros. replace (sumR (map2 (fun x y => (x - y) * (x - y)) a a)) with 0. apply sqrt_0.
  induction a; simpl; auto. rewrite <- IHa. ring.
Qed.
Lemma d2_tri_aux : forall a b c, length a = length b -> length b = length c ->
  let l := combine (map2 Rminus a b) (map2 Rminus b c) in
  sumR (map2 (fun x y => (x - y) * (x - y)) a c) = sumR (map (fun p => (fst p + snd p) * (fst p + snd p)) l)
  /\ sumR (map2 (fun x y => (x - y) * (x - y)) a b) = sq1 l
  /\ sumR (map2 (fun x y => (x - y) * (x - y)) b c) = sq2 l.
Proof.
  unfold sq1, sq2. induction a; destruct b, c; simpl; intros; try discriminate; auto.
  destruct (IHa b c ltac:(lia) ltac:(lia)) as (E1 & E2 & E3). rewrite E1, E2, E3.
  repeat split; ring.
Qed.

Lemma d2_triangle : forall a b c, length a = length b -> length b = length c -> d2 a c <= d2 a b + d2 b c.
Proof.
  intros a b c H1 H2. unfold d2.
  destruct (d2_tri_aux a b c H1 H2) as (E1 & E2 & E3). rewrite E1, E2, E3. apply minkowski2.
Qed.

(* ---- logarithm *)
Lemma ln_le_sub1 : forall x, 0 < x -> ln x <= x - 1.
Proof.
  intros x Hx. pose proof (exp_ineq1_le (ln x)) as H. rewrite exp_ln in H by assumption. lra.
Qed.

(* p ln (p/q) >= p - q for p, q > 0 *)
Lemma xlnx_lower : forall p q, 0 < p -> 0 < q -> p - q <= p * ln (p / q).
Proof.
  intros p q Hp Hq.
  assert (Hqp : 0 < q / p) by (apply Rdiv_lt_0_compat; assumption).
  pose proof (ln_le_sub1 (q / p) Hqp) as H.
  assert (Hl : ln (p / q) = - ln (q / p)).
  { rewrite <- ln_Rinv by assumption. f_equal. field. split; lra. }
  rewrite Hl.
  assert (p * ln (q / p) <= p * (q / p - 1)) by (apply Rmult_le_compat_l; lra).
  replace (p * (q / p - 1)) with (q - p) in H0 by (field; lra). lra.
Qed.
