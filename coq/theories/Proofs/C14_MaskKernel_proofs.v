(* Proofs about Model/C14_MaskKernel.v: a masked context has weight 0; the nullified kernel is the unmasked,
   unnormalised kernel with the mask's weights zeroed and then normalised; the mask's radius is 0 and its window
   empty; no (row, col, val) triple refers to the mask; the tree projector zeroes exactly the mask row and column. *)
From Coq Require Import QArith List Bool Arith Lia.
From VZ Require Import Model.C14_MaskKernel.
Import ListNotations.

(* ---- zip_with / mask_zero ---- *)
Lemma zip_with_length : forall (A B C : Type) (f : A -> B -> C) a b, length a = length b -> length (zip_with f a b) = length a.
Proof. intros A B C f a; induction a as [|x a IH]; intros [|y b] H; simpl in *; try lia. now rewrite IH by lia. Qed.

Lemma zip_with_nth : forall (A B C : Type) (f : A -> B -> C) a b j x y,
  nth_error a j = Some x -> nth_error b j = Some y -> nth_error (zip_with f a b) j = Some (f x y).
Proof.
  intros A B C f a; induction a as [|x0 a IH]; intros [|y0 b] [|j] x y Ha Hb; simpl in *; try discriminate.
  - congruence.
  - eauto.
Qed.

Lemma base_weights_length : forall k len, length (base_weights k len) = len.
Proof. intros. unfold base_weights. now rewrite map_length, seq_length. Qed.

Lemma mask_zero_length : forall mask w b, length w = length b -> length (mask_zero mask w b) = length b.
Proof. intros [m|] w b H; simpl; [rewrite zip_with_length; lia | reflexivity]. Qed.

Lemma offset_zero_length : forall off w, length (offset_zero off w) = length w.
Proof. intros off w. unfold offset_zero. rewrite app_length, repeat_length, skipn_length. lia. Qed.

Lemma normalize_length : forall norm w, length (normalize norm w) = length w.
Proof. intros [|] w; unfold normalize; [|reflexivity]. destruct (Qlt_le_dec 0 (qsum w)); [apply map_length | reflexivity]. Qed.

Lemma kernel_length : forall k w mask norm off, length (kernel k w mask norm off) = length w.
Proof.
  intros. unfold kernel. rewrite normalize_length, offset_zero_length, mask_zero_length; rewrite base_weights_length; reflexivity.
Qed.

(* pointwise description of the three stages *)
Lemma mask_zero_nth : forall m w b j t x, nth_error w j = Some t -> nth_error b j = Some x ->
  nth_error (mask_zero (Some m) w b) j = Some (if Nat.eqb t m then 0 else x).
Proof. intros. simpl. now apply (zip_with_nth _ _ _ (fun (t : nat) (x : Q) => if Nat.eqb t m then 0 else x)). Qed.

Lemma nth_error_skipn' : forall (A : Type) (l : list A) k j, nth_error (skipn k l) j = nth_error l (k + j).
Proof. intros A l; induction l as [|h t IH]; intros [|k] j; simpl; try reflexivity; [now destruct j | apply IH]. Qed.

Lemma offset_zero_nth : forall off w j x, nth_error w j = Some x ->
  nth_error (offset_zero off w) j = Some (if (j <? off)%nat then 0 else x).
Proof.
  intros off w j x H. unfold offset_zero.
  assert (Hj : (j < length w)%nat) by (apply nth_error_Some; congruence).
  destruct (Nat.ltb_spec j off) as [Hlt|Hge].
  - rewrite nth_error_app1 by (rewrite repeat_length; lia). apply nth_error_repeat. lia.
  - rewrite nth_error_app2 by (rewrite repeat_length; lia). rewrite repeat_length.
    rewrite nth_error_skipn'. replace (Nat.min off (length w) + (j - Nat.min off (length w)))%nat with j by lia. exact H.
Qed.

Lemma normalize_zero : forall norm w j x, nth_error w j = Some x -> x == 0 ->
  exists y, nth_error (normalize norm w) j = Some y /\ y == 0.
Proof.
  intros [|] w j x H Hx; unfold normalize; [|eauto].
  destruct (Qlt_le_dec 0 (qsum w)); [|eauto].
  exists (x / qsum w). split; [rewrite nth_error_map, H; reflexivity|]. rewrite Hx. unfold Qdiv. ring.
Qed.

(* (1) a context equal to the mask index has weight 0, whatever the kernel, offset and normalisation *)
Theorem kernel_mask_zero : forall k w m norm off j, nth_error w j = Some m ->
  exists y, nth_error (kernel k w (Some m) norm off) j = Some y /\ y == 0.
Proof.
  intros k w m norm off j Hj. unfold kernel.
  assert (Hlt : (j < length w)%nat) by (apply nth_error_Some; congruence).
  destruct (nth_error (base_weights k (length w)) j) as [b|] eqn:Hb;
    [|apply nth_error_None in Hb; rewrite base_weights_length in Hb; lia].
  pose proof (mask_zero_nth m w _ j m b Hj Hb) as H1. rewrite Nat.eqb_refl in H1.
  pose proof (offset_zero_nth off _ j _ H1) as H2.
  eapply normalize_zero; [exact H2|]. destruct (j <? off)%nat; reflexivity.
Qed.

(* (2) zeroing the mask commutes with the offset: the nullified kernel is
       normalise (zero the mask's weights in (the unnormalised kernel computed without mask_index)) *)
Lemma zip_with_repeat_skipn : forall (f : nat -> Q -> Q) (w : list nat) (b : list Q) (k : nat),
  (forall t, f t 0 = 0) -> length w = length b ->
  repeat 0 (Nat.min k (length (zip_with f w b))) ++ skipn (Nat.min k (length (zip_with f w b))) (zip_with f w b)
  = zip_with f w (repeat 0 (Nat.min k (length b)) ++ skipn (Nat.min k (length b)) b).
Proof.
  intros f w b k Hf. revert b k. induction w as [|t w IH]; intros [|x b] k H; simpl in *; try lia.
  - rewrite Nat.min_0_r. reflexivity.
  - destruct k as [|k]; simpl; [reflexivity|]. rewrite Hf. f_equal. apply IH. lia.
Qed.

Theorem kernel_nullify_structure : forall k w m norm off,
  kernel k w (Some m) norm off = normalize norm (mask_zero (Some m) w (kernel k w None false off)).
Proof.
  intros k w m norm off. unfold kernel. f_equal. simpl normalize. simpl mask_zero at 2.
  unfold offset_zero. simpl mask_zero.
  apply zip_with_repeat_skipn; [intro t; now destruct (Nat.eqb t m) | now rewrite base_weights_length].
Qed.

(* unnormalised weights, pointwise: 0 inside the offset, 0 on the mask, the base weight elsewhere *)
Theorem kernel_unnormalised_nth : forall k w mask off j t, nth_error w j = Some t ->
  nth_error (kernel k w mask false off) j
  = Some (if (j <? off)%nat then 0
          else match mask with Some m => if Nat.eqb t m then 0 else base_weight k j | None => base_weight k j end).
Proof.
  intros k w mask off j t Hj. unfold kernel. simpl normalize.
  assert (Hlt : (j < length w)%nat) by (apply nth_error_Some; congruence).
  assert (Hb : nth_error (base_weights k (length w)) j = Some (base_weight k j)).
  { unfold base_weights. rewrite nth_error_map. rewrite (nth_error_nth' _ 0%nat) by (rewrite seq_length; exact Hlt).
    rewrite seq_nth by exact Hlt. reflexivity. }
  destruct mask as [m|].
  - rewrite (offset_zero_nth off _ j _ (mask_zero_nth m w _ j t _ Hj Hb)). reflexivity.
  - simpl mask_zero. rewrite (offset_zero_nth off _ j _ Hb). reflexivity.
Qed.

(* normalised weights, pointwise: the unnormalised weight divided by the sum of the unnormalised weights *)
Theorem kernel_normalised_nth : forall k w mask off j x, nth_error (kernel k w mask false off) j = Some x ->
  0 < qsum (kernel k w mask false off) ->
  nth_error (kernel k w mask true off) j = Some (x / qsum (kernel k w mask false off)).
Proof.
  intros k w mask off j x Hx Hs. unfold kernel in *. simpl normalize in *. unfold normalize.
  destruct (Qlt_le_dec 0 (qsum _)) as [_|Hle]; [|exfalso; eapply Qlt_not_le; eauto].
  rewrite nth_error_map, Hx. reflexivity.
Qed.

(* (3) radii and windows *)
Lemma upd_nth_same : forall (A : Type) (l : list A) i v d, (i < length l)%nat -> nth i (upd l i v) d = v.
Proof. intros A l; induction l as [|h t IH]; intros [|i] v d H; simpl in *; try lia; auto. apply IH; lia. Qed.
Lemma upd_nth_other : forall (A : Type) (l : list A) i j v d, i <> j -> nth j (upd l i v) d = nth j l d.
Proof. intros A l; induction l as [|h t IH]; intros [|i] [|j] v d H; simpl in *; try reflexivity; try lia. apply IH; lia. Qed.

Theorem mask_radius_zero : forall size ntok m, (m <= ntok)%nat ->
  nth m (fixed_radii size ntok (Some m)) 0%nat = 0%nat /\
  forall t, (t <= ntok)%nat -> t <> m -> nth t (fixed_radii size ntok (Some m)) 0%nat = size.
Proof.
  intros size ntok m Hm. unfold fixed_radii. split.
  - apply upd_nth_same. rewrite repeat_length. lia.
  - intros t Ht Hne. rewrite upd_nth_other by congruence. apply nth_error_nth. apply nth_error_repeat. lia.
Qed.

Theorem window_radius_zero_empty : forall (A : Type) (s : list A) ind reverse, window_at_index s 0 ind reverse = [].
Proof.
  intros A s ind [|]; unfold window_at_index.
  - rewrite Nat.sub_0_r, Nat.sub_diag. reflexivity.
  - replace (Nat.min (ind + 0 + 1) (length s) - (ind + 1))%nat with 0%nat by lia. reflexivity.
Qed.

(* (4) no triple refers to the mask: its row is empty (radius 0) and its column never receives a positive value *)
Lemma combine_kernel_mask : forall k w m norm off t x, In (t, x) (combine w (kernel k w (Some m) norm off)) -> t = m -> x == 0.
Proof.
  intros k w m norm off t x Hin Ht. apply In_nth_error in Hin. destruct Hin as [j Hj].
  assert (Hw : nth_error w j = Some t /\ nth_error (kernel k w (Some m) norm off) j = Some x).
  { revert Hj. generalize (kernel k w (Some m) norm off) as l. revert j.
    induction w as [|a w IH]; intros [|j] [|b l] H; simpl in *; try discriminate.
    - inversion H; auto.
    - auto. }
  destruct Hw as [Hw Hx]. subst t. destruct (kernel_mask_zero k w m norm off j Hw) as (y & Hy & Hy0). congruence.
Qed.

Lemma in_combine_map_r : forall (A B C : Type) (f : B -> C) (a : list A) (b : list B) x y,
  In (x, y) (combine a (map f b)) -> exists z, y = f z /\ In (x, z) (combine a b).
Proof.
  intros A B C f a; induction a as [|h a IH]; intros [|z b] x y H; simpl in *; try contradiction.
  destruct H as [H|H]; [inversion H; subst; eauto|]. destruct (IH _ _ _ H) as (z' & E & Hin). eauto.
Qed.

Theorem events_avoid_mask : forall k radii reverse m norm off mix nw s ind r c v,
  nth m radii 0%nat = 0%nat ->
  In (r, c, v) (position_events k radii reverse (Some m) norm off mix nw s ind) -> r <> m /\ c <> m.
Proof.
  intros k radii reverse m norm off mix nw s ind r c v Hrad Hin. unfold position_events in Hin.
  set (target := nth ind s 0%nat) in *.
  destruct (Nat.eq_dec target m) as [E|NE].
  - exfalso. rewrite E, Hrad, window_radius_zero_empty in Hin. simpl in Hin. exact Hin.
  - apply in_flat_map in Hin. destruct Hin as ([context w] & Hcw & Hin).
    set (window := window_at_index s (nth target radii 0%nat) ind reverse) in *.
    set (total := if Qlt_le_dec 0 _ then _ else 1) in *.
    destruct (Qlt_le_dec 0 (w / total)) as [Hpos|]; [|contradiction].
    destruct Hin as [Hin|[]]. inversion Hin; subst r c v. split; [exact NE|].
    intro Hc. apply in_combine_map_r in Hcw. destruct Hcw as (x & Heq & Hcx). subst w context.
    pose proof (combine_kernel_mask _ _ _ _ _ _ _ Hcx eq_refl) as Hx0.
    rewrite Hx0 in Hpos. unfold Qdiv in Hpos. rewrite Qmult_0_r, Qmult_0_l in Hpos. apply (Qlt_irrefl 0). exact Hpos.
Qed.

(* (5) the tree vectorizer's projector: M . G . M zeroes exactly the mask's row and column (any semiring) *)
Section ProjectorProofs.
Variable R : Type.
Variables (rzero rone : R) (radd rmul : R -> R -> R).
Hypothesis add_0_l : forall x, radd rzero x = x.
Hypothesis add_0_r : forall x, radd x rzero = x.
Hypothesis mul_0_l : forall x, rmul rzero x = rzero.
Hypothesis mul_0_r : forall x, rmul x rzero = rzero.
Hypothesis mul_1_l : forall x, rmul rone x = x.
Hypothesis mul_1_r : forall x, rmul x rone = x.

Notation dotp := (dotp R rzero radd rmul).
Notation col := (col R rzero).
Notation matmul := (matmul R rzero radd rmul).
Notation eye_masked := (eye_masked R rzero rone).
Notation project := (project R rzero rone radd rmul).

Lemma dot_unit_l : forall (b : bool) (i len a : nat) (v : list R), length v = len ->
  dotp (map (fun j => if Nat.eqb i j && b then rone else rzero) (seq a len)) v
  = if b && (a <=? i)%nat && (i <? a + len)%nat then nth (i - a) v rzero else rzero.
Proof.
  intros b i len; induction len as [|len IH]; intros a [|y v] Hv; cbn [length] in Hv; try lia.
  - cbn [seq map C14_MaskKernel.dotp]. destruct b, (a <=? i)%nat eqn:E1, (i <? a + 0)%nat eqn:E2; cbn [andb]; try reflexivity.
    apply Nat.leb_le in E1. apply Nat.ltb_lt in E2. lia.
  - cbn [seq map C14_MaskKernel.dotp]. rewrite (IH (S a) v) by lia.
    destruct (Nat.eqb_spec i a) as [E|NE].
    + subst i. destruct b; cbn [andb].
      * rewrite mul_1_l. replace (S a <=? a)%nat with false by (symmetry; apply Nat.leb_gt; lia). cbn [andb].
        rewrite add_0_r. rewrite Nat.leb_refl. replace (a <? a + S len)%nat with true by (symmetry; apply Nat.ltb_lt; lia).
        cbn [andb]. now rewrite Nat.sub_diag.
      * rewrite mul_0_l, add_0_l. reflexivity.
    + cbn [andb]. rewrite mul_0_l, add_0_l.
      destruct b; cbn [andb]; [|reflexivity].
      destruct (Nat.leb_spec (S a) i) as [H1|H1], (Nat.leb_spec a i) as [H2|H2]; try lia; cbn [andb].
      * replace (i <? a + S len)%nat with (i <? S a + len)%nat by (f_equal; lia).
        destruct (i <? S a + len)%nat; [|reflexivity].
        replace (i - a)%nat with (S (i - S a)) by lia. reflexivity.
      * reflexivity.
Qed.

Lemma dot_unit_r : forall (b : bool) (i len a : nat) (v : list R), length v = len ->
  dotp v (map (fun j => if Nat.eqb j i && b then rone else rzero) (seq a len))
  = if b && (a <=? i)%nat && (i <? a + len)%nat then nth (i - a) v rzero else rzero.
Proof.
  intros b i len; induction len as [|len IH]; intros a [|y v] Hv; cbn [length] in Hv; try lia.
  - cbn [seq map C14_MaskKernel.dotp]. destruct b, (a <=? i)%nat eqn:E1, (i <? a + 0)%nat eqn:E2; cbn [andb]; try reflexivity.
    apply Nat.leb_le in E1. apply Nat.ltb_lt in E2. lia.
  - cbn [seq map C14_MaskKernel.dotp]. rewrite (IH (S a) v) by lia.
    destruct (Nat.eqb_spec a i) as [E|NE].
    + subst i. destruct b; cbn [andb].
      * rewrite mul_1_r. replace (S a <=? a)%nat with false by (symmetry; apply Nat.leb_gt; lia). cbn [andb].
        rewrite add_0_r. rewrite Nat.leb_refl. replace (a <? a + S len)%nat with true by (symmetry; apply Nat.ltb_lt; lia).
        cbn [andb]. now rewrite Nat.sub_diag.
      * rewrite mul_0_r, add_0_l. reflexivity.
    + cbn [andb]. rewrite mul_0_r, add_0_l.
      destruct b; cbn [andb]; [|reflexivity].
      destruct (Nat.leb_spec (S a) i) as [H1|H1], (Nat.leb_spec a i) as [H2|H2]; try lia; cbn [andb].
      * replace (i <? a + S len)%nat with (i <? S a + len)%nat by (f_equal; lia).
        destruct (i <? S a + len)%nat; [|reflexivity].
        replace (i - a)%nat with (S (i - S a)) by lia. reflexivity.
      * reflexivity.
Qed.

Lemma nth_map_seq : forall (A : Type) (f : nat -> A) n i d, (i < n)%nat -> nth i (map f (seq 0 n)) d = f i.
Proof.
  intros A f n i d H. rewrite (nth_indep _ d (f 0%nat)) by (rewrite map_length, seq_length; exact H).
  rewrite map_nth. now rewrite seq_nth.
Qed.

Lemma col_eye : forall n m c, (c < n)%nat ->
  col c (eye_masked n m) = map (fun i => if Nat.eqb i c && negb (Nat.eqb c m) then rone else rzero) (seq 0 n).
Proof.
  intros n m c Hc. unfold C14_MaskKernel.col, C14_MaskKernel.eye_masked. rewrite map_map. apply map_ext.
  intro i. rewrite nth_map_seq by exact Hc.
  destruct (Nat.eqb_spec i c) as [->|NE]; [reflexivity|]. reflexivity.
Qed.

Theorem project_entries : forall n m (G : list (list R)) r c, length G = n -> (r < n)%nat -> (c < n)%nat ->
  nth c (nth r (project n m G) []) rzero
  = if Nat.eqb r m || Nat.eqb c m then rzero else nth c (nth r G []) rzero.
Proof.
  intros n m G r c HG Hr Hc. unfold C14_MaskKernel.project, C14_MaskKernel.matmul.
  set (MG := map (fun row => map (fun j => dotp row (col j G)) (seq 0 n)) (eye_masked n m)).
  assert (HMG : nth r MG [] = map (fun j => if Nat.eqb r m then rzero else nth j (nth r G []) rzero) (seq 0 n)).
  { unfold MG, C14_MaskKernel.eye_masked. rewrite map_map. rewrite nth_map_seq by exact Hr.
    apply map_ext. intro j. rewrite dot_unit_l by (unfold C14_MaskKernel.col; rewrite map_length; exact HG).
    simpl. replace (r <? n)%nat with true by (symmetry; apply Nat.ltb_lt; exact Hr).
    rewrite Nat.sub_0_r. destruct (Nat.eqb r m); simpl; [reflexivity|].
    unfold C14_MaskKernel.col. rewrite (nth_indep _ rzero (nth j [] rzero)) by (rewrite map_length; lia).
    now rewrite (map_nth (fun row => nth j row rzero) G [] r). }
  assert (Hlen : length MG = n) by (unfold MG, C14_MaskKernel.eye_masked; now rewrite !map_length, seq_length).
  rewrite (nth_indep _ [] (map (fun j => dotp [] (col j (eye_masked n m))) (seq 0 n))) by (rewrite map_length; lia).
  rewrite (map_nth (fun row => map (fun j => dotp row (col j (eye_masked n m))) (seq 0 n)) MG [] r).
  rewrite nth_map_seq by exact Hc. rewrite col_eye by exact Hc.
  rewrite dot_unit_r by (rewrite HMG, map_length, seq_length; reflexivity).
  simpl. replace (c <? n)%nat with true by (symmetry; apply Nat.ltb_lt; exact Hc). rewrite Nat.sub_0_r.
  rewrite HMG, nth_map_seq by exact Hc.
  destruct (Nat.eqb r m), (Nat.eqb c m); reflexivity.
Qed.

End ProjectorProofs.
