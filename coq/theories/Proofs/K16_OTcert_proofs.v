(* K16 — proofs about the transport-plan certificate checker (Model/K16_OTcert.v).
   The specification side is pointwise: entries by `nth`, sums as bounded sums `bsum n f` over index functions; it does
   not use the list recursions (`qsum`, `vadd`, `colsums`, `inner`) the checker computes with.  The bridge lemmas
   between the two are the content of the soundness theorem, weak duality is proved for arbitrary n x m by exchanging
   the double sum. *)
From Coq Require Import QArith Qminmax Qabs List Bool ZArith Arith Lia Lqa Setoid Morphisms.
From VZ Require Import Model.K16_OTcert.
Import ListNotations.
Open Scope Q_scope.

(* ---------------------------------------------------------------- specification vocabulary *)
Fixpoint bsum (n : nat) (f : nat -> Q) : Q :=
  match n with O => 0 | S k => bsum k f + f k end.

Definition entry (X : mat) (i j : nat) : Q := nth j (nth i X []) 0.
Definition rsum (X : mat) (m i : nat) : Q := bsum m (fun j => entry X i j).
Definition csum (X : mat) (n j : nat) : Q := bsum n (fun i => entry X i j).
Definition cost (n m : nat) (X C : mat) : Q :=
  bsum n (fun i => bsum m (fun j => entry X i j * entry C i j)).

(* X is a coupling of p and q (exactly) *)
Definition feasible (p q : vec) (X : mat) : Prop :=
  (forall i j, (i < length p)%nat -> (j < length q)%nat -> 0 <= entry X i j) /\
  (forall i, (i < length p)%nat -> rsum X (length q) i == nth i p 0) /\
  (forall j, (j < length q)%nat -> csum X (length p) j == nth j q 0).

Definition dual_feasible (n m : nat) (C : mat) (u v : vec) : Prop :=
  forall i j, (i < n)%nat -> (j < m)%nat -> nth i u 0 + nth j v 0 <= entry C i j.

Definition dual_val (p q u v : vec) : Q :=
  bsum (length p) (fun i => nth i u 0 * nth i p 0) + bsum (length q) (fun j => nth j v 0 * nth j q 0).

(* opt is the infimum of the cost over the exactly feasible plans (no existence of a minimiser is needed) *)
Definition is_opt (p q : vec) (C : mat) (opt : Q) : Prop :=
  (forall X, feasible p q X -> opt <= cost (length p) (length q) X C) /\
  (forall b, (forall X, feasible p q X -> b <= cost (length p) (length q) X C) -> b <= opt).

Definition optimal_plan (p q : vec) (C : mat) (Xo : mat) : Prop :=
  feasible p q Xo /\ forall X, feasible p q X -> cost (length p) (length q) Xo C <= cost (length p) (length q) X C.

(* ---------------------------------------------------------------- bounded sums *)
Lemma bsum_ext : forall n f g, (forall i, (i < n)%nat -> f i == g i) -> bsum n f == bsum n g.
Proof.
  induction n as [|n IH]; intros f g H; simpl; [reflexivity|].
  rewrite (IH f g), (H n); [reflexivity | lia | intros; apply H; lia].
Qed.

Lemma bsum_le : forall n f g, (forall i, (i < n)%nat -> f i <= g i) -> bsum n f <= bsum n g.
Proof.
  induction n as [|n IH]; intros f g H; simpl; [apply Qle_refl|].
  apply Qplus_le_compat; [apply IH; intros; apply H; lia | apply H; lia].
Qed.

Lemma bsum_plus : forall n f g, bsum n (fun i => f i + g i) == bsum n f + bsum n g.
Proof. induction n as [|n IH]; intros; simpl; [ring | rewrite IH; ring]. Qed.

Lemma bsum_scal : forall n c f, bsum n (fun i => c * f i) == c * bsum n f.
Proof. induction n as [|n IH]; intros; simpl; [ring | rewrite IH; ring]. Qed.

Lemma bsum_zero : forall n f, (forall i, (i < n)%nat -> f i == 0) -> bsum n f == 0.
Proof.
  induction n as [|n IH]; intros f H; simpl; [reflexivity|].
  rewrite IH, (H n); [ring | lia | intros; apply H; lia].
Qed.

Lemma bsum_front : forall n f, bsum (S n) f == f O + bsum n (fun i => f (S i)).
Proof.
  induction n as [|n IH]; intros f; [simpl; ring|].
  change (bsum (S (S n)) f) with (bsum (S n) f + f (S n)).
  rewrite IH. simpl. ring.
Qed.

(* exchange of the two summations *)
Lemma bsum_exchange : forall n m (f : nat -> nat -> Q),
  bsum n (fun i => bsum m (fun j => f i j)) == bsum m (fun j => bsum n (fun i => f i j)).
Proof.
  induction n as [|n IH]; intros m f; simpl.
  - symmetry. apply bsum_zero. intros; reflexivity.
  - rewrite IH. rewrite <- bsum_plus. reflexivity.
Qed.

(* ---------------------------------------------------------------- weak duality, on index functions *)
Lemma weak_duality_fun : forall n m (f c : nat -> nat -> Q) (u p v q : nat -> Q),
  (forall i j, (i < n)%nat -> (j < m)%nat -> 0 <= f i j) ->
  (forall i, (i < n)%nat -> bsum m (fun j => f i j) == p i) ->
  (forall j, (j < m)%nat -> bsum n (fun i => f i j) == q j) ->
  (forall i j, (i < n)%nat -> (j < m)%nat -> u i + v j <= c i j) ->
  bsum n (fun i => u i * p i) + bsum m (fun j => v j * q j)
  <= bsum n (fun i => bsum m (fun j => f i j * c i j)).
Proof.
  intros n m f c u p v q Hpos Hrow Hcol Hdual.
  assert (E1 : bsum n (fun i => u i * p i) == bsum n (fun i => bsum m (fun j => u i * f i j))).
  { apply bsum_ext. intros i Hi. rewrite bsum_scal, (Hrow i Hi). reflexivity. }
  assert (E2 : bsum m (fun j => v j * q j) == bsum n (fun i => bsum m (fun j => v j * f i j))).
  { rewrite (bsum_exchange n m (fun i j => v j * f i j)).
    apply bsum_ext. intros j Hj. rewrite bsum_scal, (Hcol j Hj). reflexivity. }
  rewrite E1, E2, <- bsum_plus.
  apply bsum_le. intros i Hi. rewrite <- bsum_plus.
  apply bsum_le. intros j Hj.
  specialize (Hpos i j Hi Hj). specialize (Hdual i j Hi Hj). nra.
Qed.

Theorem weak_duality : forall (p q : vec) (C X : mat) (u v : vec),
  feasible p q X -> dual_feasible (length p) (length q) C u v ->
  dual_val p q u v <= cost (length p) (length q) X C.
Proof.
  intros p q C X u v (Hpos & Hrow & Hcol) Hd. unfold dual_val, cost.
  apply (weak_duality_fun (length p) (length q) (fun i j => entry X i j) (fun i j => entry C i j)
           (fun i => nth i u 0) (fun i => nth i p 0) (fun j => nth j v 0) (fun j => nth j q 0)); assumption.
Qed.

(* ---------------------------------------------------------------- list recursions = pointwise sums *)
Lemma qsum_bsum : forall l, qsum l == bsum (length l) (fun i => nth i l 0).
Proof.
  induction l as [|x l IH]; [reflexivity|].
  change (length (x :: l)) with (S (length l)). rewrite bsum_front. simpl. rewrite IH. reflexivity.
Qed.

Lemma nth_nil_Q : forall i, nth i (@nil Q) 0 = 0.
Proof. destruct i; reflexivity. Qed.

Lemma dot_bsum : forall a b, dot a b == bsum (length a) (fun i => nth i a 0 * nth i b 0).
Proof.
  induction a as [|x a IH]; intros b; [reflexivity|].
  change (length (x :: a)) with (S (length a)). rewrite bsum_front.
  destruct b as [|y b]; simpl.
  - rewrite bsum_zero; [ring|]. intros i _. ring.
  - rewrite IH. reflexivity.
Qed.

Lemma forallb2_spec : forall {A B} (f : A -> B -> bool) (da : A) (db : B) a b,
  forallb2 f a b = true ->
  length a = length b /\ forall i, (i < length a)%nat -> f (nth i a da) (nth i b db) = true.
Proof.
  induction a as [|x a IH]; destruct b as [|y b]; simpl; intros H; try discriminate.
  - split; [reflexivity | intros; lia].
  - apply andb_true_iff in H. destruct H as [H1 H2]. destruct (IH b H2) as [L N].
    split; [congruence|]. intros [|i] Hi; [assumption | apply N; lia].
Qed.

Lemma is_matrix_spec : forall n m X, is_matrix n m X = true ->
  length X = n /\ forall i, (i < n)%nat -> length (nth i X []) = m.
Proof.
  unfold is_matrix. intros n m X H. apply andb_true_iff in H. destruct H as [H1 H2].
  apply Nat.eqb_eq in H1. split; [assumption|]. intros i Hi.
  rewrite forallb_forall in H2. apply Nat.eqb_eq, H2, nth_In. lia.
Qed.

Lemma is_matrix_tail : forall n m r X, is_matrix (S n) m (r :: X) = true ->
  length r = m /\ is_matrix n m X = true.
Proof.
  unfold is_matrix. simpl. intros n m r X H.
  apply andb_true_iff in H. destruct H as [H1 H2].
  apply andb_true_iff in H2. destruct H2 as [H2 H3].
  apply Nat.eqb_eq in H2. split; [assumption|]. apply andb_true_iff. split; assumption.
Qed.

Lemma rowsums_nth : forall n m X i, is_matrix n m X = true -> (i < n)%nat ->
  nth i (rowsums X) 0 == rsum X m i.
Proof.
  intros n m X i HM Hi. destruct (is_matrix_spec _ _ _ HM) as [L R].
  unfold rowsums, rsum, entry.
  change 0 with (qsum []) at 1. rewrite map_nth. rewrite qsum_bsum, (R i Hi). reflexivity.
Qed.

Lemma vadd_length : forall a b, length a = length b -> length (vadd a b) = length a.
Proof. induction a as [|x a IH]; destruct b; simpl; intros; try discriminate; auto. Qed.

Lemma vadd_nth : forall a b j, length a = length b -> nth j (vadd a b) 0 == nth j a 0 + nth j b 0.
Proof.
  induction a as [|x a IH]; destruct b as [|y b]; simpl; intros j H; try discriminate.
  - destruct j; ring.
  - destruct j; [reflexivity | apply IH; congruence].
Qed.

Lemma colsums_length : forall n m X, is_matrix n m X = true -> length (colsums m X) = m.
Proof.
  induction n as [|n IH]; intros m X H.
  - destruct (is_matrix_spec _ _ _ H) as [L _]. destruct X; [|discriminate]. simpl. apply repeat_length.
  - destruct X as [|r X]; [destruct (is_matrix_spec _ _ _ H); discriminate|].
    destruct (is_matrix_tail _ _ _ _ H) as [Lr HX]. simpl.
    rewrite vadd_length; [assumption | rewrite (IH m X HX); assumption].
Qed.

Lemma nth_repeat_0 : forall m j, nth j (repeat 0 m) 0 = 0.
Proof. induction m; destruct j; simpl; auto. Qed.

Lemma colsums_nth : forall n m X j, is_matrix n m X = true -> nth j (colsums m X) 0 == csum X n j.
Proof.
  induction n as [|n IH]; intros m X j H.
  - destruct (is_matrix_spec _ _ _ H) as [L _]. destruct X; [|discriminate]. simpl.
    rewrite nth_repeat_0. reflexivity.
  - destruct X as [|r X]; [destruct (is_matrix_spec _ _ _ H); discriminate|].
    destruct (is_matrix_tail _ _ _ _ H) as [Lr HX]. simpl colsums.
    rewrite vadd_nth; [| rewrite (colsums_length n m X HX); assumption].
    unfold csum. rewrite bsum_front. rewrite (IH m X j HX). unfold csum, entry. simpl. reflexivity.
Qed.

Lemma inner_cost : forall n m X C, is_matrix n m X = true -> is_matrix n m C = true ->
  inner X C == cost n m X C.
Proof.
  induction n as [|n IH]; intros m X C HX HC.
  - destruct (is_matrix_spec _ _ _ HX) as [L _]. destruct X; [|discriminate]. reflexivity.
  - destruct X as [|r X]; [destruct (is_matrix_spec _ _ _ HX); discriminate|].
    destruct C as [|c C]; [destruct (is_matrix_spec _ _ _ HC); discriminate|].
    destruct (is_matrix_tail _ _ _ _ HX) as [Lr HX'].
    destruct (is_matrix_tail _ _ _ _ HC) as [Lc HC'].
    simpl inner. unfold cost. rewrite bsum_front. rewrite (IH m X C HX' HC').
    rewrite dot_bsum, Lr. unfold cost, entry. simpl. reflexivity.
Qed.

Lemma dual_value_spec : forall p q u v, length u = length p -> length v = length q ->
  dual_value p q u v == dual_val p q u v.
Proof.
  intros p q u v Lu Lv. unfold dual_value, dual_val. rewrite !dot_bsum, Lu, Lv. reflexivity.
Qed.

Lemma nonneg_mat_spec : forall X i j, nonneg_mat X = true -> 0 <= entry X i j.
Proof.
  unfold nonneg_mat, entry. intros X i j H. rewrite forallb_forall in H.
  destruct (Nat.lt_ge_cases i (length X)) as [Hi|Hi].
  - specialize (H (nth i X []) (nth_In _ _ Hi)). rewrite forallb_forall in H.
    destruct (Nat.lt_ge_cases j (length (nth i X []))) as [Hj|Hj].
    + apply Qle_bool_iff, H, nth_In, Hj.
    + rewrite nth_overflow by assumption. apply Qle_refl.
  - rewrite (nth_overflow X) by assumption. rewrite nth_nil_Q. apply Qle_refl.
Qed.

Lemma close_spec : forall d a b, close d a b = true ->
  length a = length b /\ forall i, (i < length a)%nat -> Qabs (nth i a 0 - nth i b 0) <= d.
Proof.
  unfold close. intros d a b H. destruct (forallb2_spec _ 0 0 _ _ H) as [L N]. split; [assumption|].
  intros i Hi. specialize (N i Hi). apply andb_true_iff in N. destruct N as [N1 N2].
  apply Qle_bool_iff in N1. apply Qle_bool_iff in N2. apply Qabs_Qle_condition. split; lra.
Qed.

Lemma veq_spec : forall a b, veq a b = true ->
  length a = length b /\ forall i, (i < length a)%nat -> nth i a 0 == nth i b 0.
Proof.
  unfold veq. intros a b H. destruct (forallb2_spec _ 0 0 _ _ H) as [L N]. split; [assumption|].
  intros i Hi. apply Qeq_bool_iff, N, Hi.
Qed.

Lemma dual_ok_spec : forall n m C u v, is_matrix n m C = true -> length u = n -> length v = m ->
  dual_ok C u v = true -> dual_feasible n m C u v.
Proof.
  unfold dual_ok, dual_feasible, entry. intros n m C u v HC Lu Lv H i j Hi Hj.
  destruct (forallb2_spec _ 0 [] _ _ H) as [_ N]. rewrite Lu in N. specialize (N i Hi). cbv beta in N.
  destruct (forallb2_spec _ 0 0 _ _ N) as [_ N']. rewrite Lv in N'. apply Qle_bool_iff, N', Hj.
Qed.

Lemma rowsums_length : forall X, length (rowsums X) = length X.
Proof. intros. apply map_length. Qed.

(* ---------------------------------------------------------------- soundness of the checker *)
Lemma bracket : forall c D U opt tol, D <= opt -> opt <= U -> U - c <= tol -> c - D <= tol ->
  Qabs (c - opt) <= tol.
Proof. intros. apply Qabs_Qle_condition. split; lra. Qed.

Theorem check_plan_sound : forall (p q : vec) (C X : mat) (u v : vec) (X' : mat) (delta eps unit : Q),
  check_plan p q C X u v X' delta eps unit = true ->
  let n := length p in
  let m := length q in
  let D := dual_val p q u v in
  (* the implementation's plan *)
  (forall i j, 0 <= entry X i j) /\
  (forall i, (i < n)%nat -> Qabs (rsum X m i - nth i p 0) <= delta) /\
  (forall j, (j < m)%nat -> Qabs (csum X n j - nth j q 0) <= delta) /\
  (* the certificate *)
  feasible p q X' /\
  dual_feasible n m C u v /\
  (* the dual value is a lower bound on every exactly feasible plan, X' gives an upper bound *)
  (forall X'', feasible p q X'' -> D <= cost n m X'' C) /\
  (* hence for the optimum of the linear program: *)
  (forall opt, is_opt p q C opt ->
     D <= opt /\ opt <= cost n m X' C /\
     Qabs (cost n m X C - opt) <= eps * Qmax unit D /\
     Qabs (cost n m X C - opt) <= eps * Qmax unit opt).
Proof.
  intros p q C X u v X' delta eps unit H n m D.
  unfold check_plan in H. fold n m in H.
  apply andb_true_iff in H; destruct H as [H B2].
  apply andb_true_iff in H; destruct H as [H B1].
  apply andb_true_iff in H; destruct H as [H DU].
  apply andb_true_iff in H; destruct H as [H CX'].
  apply andb_true_iff in H; destruct H as [H RX'].
  apply andb_true_iff in H; destruct H as [H NX'].
  apply andb_true_iff in H; destruct H as [H CX].
  apply andb_true_iff in H; destruct H as [H RX].
  apply andb_true_iff in H; destruct H as [H NX].
  apply andb_true_iff in H; destruct H as [H He0].
  apply andb_true_iff in H; destruct H as [H Hd0].
  apply andb_true_iff in H; destruct H as [H Lv].
  apply andb_true_iff in H; destruct H as [H Lu].
  apply andb_true_iff in H; destruct H as [H MX'].
  apply andb_true_iff in H; destruct H as [MC MX].
  apply Nat.eqb_eq in Lu. apply Nat.eqb_eq in Lv.
  apply Qle_bool_iff in He0. apply Qle_bool_iff in B1. apply Qle_bool_iff in B2.
  assert (FX' : feasible p q X').
  { split; [|split].
    - intros i j _ _. apply nonneg_mat_spec, NX'.
    - intros i Hi. destruct (veq_spec _ _ RX') as [_ N]. rewrite rowsums_length in N.
      destruct (is_matrix_spec _ _ _ MX') as [L _]. fold n in L. rewrite L in N.
      rewrite <- (N i Hi). symmetry. apply (rowsums_nth n m); assumption.
    - intros j Hj. destruct (veq_spec _ _ CX') as [_ N]. rewrite (colsums_length n m X' MX') in N.
      rewrite <- (N j Hj). symmetry. apply (colsums_nth n m). assumption. }
  assert (DF : dual_feasible n m C u v) by (apply dual_ok_spec; assumption).
  assert (WD : forall X'', feasible p q X'' -> D <= cost n m X'' C).
  { intros X'' F. apply weak_duality; assumption. }
  assert (ED : dual_value p q u v == D) by (apply dual_value_spec; assumption).
  assert (EX : inner X C == cost n m X C) by (apply inner_cost; assumption).
  assert (EX' : inner X' C == cost n m X' C) by (apply inner_cost; assumption).
  rewrite ED, EX, EX' in B1. rewrite ED, EX in B2.
  repeat split.
  - intros i j. apply nonneg_mat_spec, NX.
  - intros i Hi. destruct (close_spec _ _ _ RX) as [_ N]. rewrite rowsums_length in N.
    destruct (is_matrix_spec _ _ _ MX) as [L _]. fold n in L. rewrite L in N.
    rewrite <- (rowsums_nth n m X i MX Hi). apply N, Hi.
  - intros j Hj. destruct (close_spec _ _ _ CX) as [_ N]. rewrite (colsums_length n m X MX) in N.
    rewrite <- (colsums_nth n m X j MX). apply N, Hj.
  - apply FX'.
  - apply FX'.
  - apply FX'.
  - exact DF.
  - exact WD.
  - destruct H as [_ G]. apply G. exact WD.
  - destruct H as [L _]. apply L. exact FX'.
  - destruct H as [L G]. apply bracket with (D := D) (U := cost n m X' C); auto.
  - destruct H as [L G]. assert (D <= opt) by (apply G; exact WD).
    apply Qle_trans with (eps * Qmax unit D).
    + apply bracket with (D := D) (U := cost n m X' C); auto.
    + assert (M : Qmax unit D <= Qmax unit opt) by (apply Q.max_le_compat_l; assumption). nra.
Qed.

(* the raw facts the checker establishes, in pointwise vocabulary (used for the scaled form below) *)
Lemma check_plan_facts : forall (p q : vec) (C X : mat) (u v : vec) (X' : mat) (delta eps unit : Q),
  check_plan p q C X u v X' delta eps unit = true ->
  let n := length p in
  let m := length q in
  let D := dual_val p q u v in
  (forall i j, 0 <= entry X i j) /\
  (forall i, (i < n)%nat -> Qabs (rsum X m i - nth i p 0) <= delta) /\
  (forall j, (j < m)%nat -> Qabs (csum X n j - nth j q 0) <= delta) /\
  feasible p q X' /\
  dual_feasible n m C u v /\
  0 <= eps /\
  cost n m X' C - cost n m X C <= eps * Qmax unit D /\
  cost n m X C - D <= eps * Qmax unit D.
Proof.
  intros p q C X u v X' delta eps unit H n m D.
  destruct (check_plan_sound p q C X u v X' delta eps unit H) as (A1 & A2 & A3 & A4 & A5 & _).
  unfold check_plan in H. fold n m in H.
  apply andb_true_iff in H; destruct H as [H B2].
  apply andb_true_iff in H; destruct H as [H B1].
  do 7 (apply andb_true_iff in H; destruct H as [H _]).
  apply andb_true_iff in H; destruct H as [H He0].
  apply andb_true_iff in H; destruct H as [H _].
  apply andb_true_iff in H; destruct H as [H Lv].
  apply andb_true_iff in H; destruct H as [H Lu].
  apply andb_true_iff in H; destruct H as [H MX'].
  apply andb_true_iff in H; destruct H as [MC MX].
  apply Nat.eqb_eq in Lu. apply Nat.eqb_eq in Lv.
  apply Qle_bool_iff in He0. apply Qle_bool_iff in B1. apply Qle_bool_iff in B2.
  assert (ED : dual_value p q u v == D) by (apply dual_value_spec; assumption).
  assert (EX : inner X C == cost n m X C) by (apply inner_cost; assumption).
  assert (EX' : inner X' C == cost n m X' C) by (apply inner_cost; assumption).
  rewrite ED, EX, EX' in B1. rewrite ED, EX in B2.
  repeat split; try assumption; apply A4.
Qed.

(* ---------------------------------------------------------------- homogeneity: the instance may be presented scaled
   The harness hands the checker integers: masses multiplied by s, costs by k (s, k > 0).  The instance that is meant is
   the unscaled one; acceptance of the scaled literals implies the statements for it. *)
Definition vsc (c : Q) (v : vec) : vec := map (Qmult c) v.
Definition msc (c : Q) (X : mat) : mat := map (vsc c) X.

Lemma vsc_length : forall c v, length (vsc c v) = length v.
Proof. intros. apply map_length. Qed.

Lemma nth_vsc : forall c v i, nth i (vsc c v) 0 == c * nth i v 0.
Proof.
  induction v as [|x v IH]; intros i; simpl.
  - destruct i; ring.
  - destruct i; [reflexivity | apply IH].
Qed.

Lemma entry_msc : forall c X i j, entry (msc c X) i j == c * entry X i j.
Proof.
  unfold entry. induction X as [|r X IH]; intros i j; simpl.
  - destruct i; destruct j; simpl; ring.
  - destruct i; [apply nth_vsc | apply IH].
Qed.

Lemma rsum_msc : forall c X m i, rsum (msc c X) m i == c * rsum X m i.
Proof. intros. unfold rsum. rewrite <- bsum_scal. apply bsum_ext. intros. apply entry_msc. Qed.

Lemma csum_msc : forall c X n j, csum (msc c X) n j == c * csum X n j.
Proof. intros. unfold csum. rewrite <- bsum_scal. apply bsum_ext. intros. apply entry_msc. Qed.

Lemma cost_msc : forall c e n m X C, cost n m (msc c X) (msc e C) == c * e * cost n m X C.
Proof.
  intros. unfold cost. rewrite <- bsum_scal. apply bsum_ext. intros i _.
  rewrite <- bsum_scal. apply bsum_ext. intros j _. rewrite !entry_msc. ring.
Qed.

Lemma cost_msc_l : forall c n m X C, cost n m (msc c X) C == c * cost n m X C.
Proof.
  intros. unfold cost. rewrite <- bsum_scal. apply bsum_ext. intros i _.
  rewrite <- bsum_scal. apply bsum_ext. intros j _. rewrite entry_msc. ring.
Qed.

Lemma dual_val_vsc : forall c e p q u v,
  dual_val (vsc c p) (vsc c q) (vsc e u) (vsc e v) == c * e * dual_val p q u v.
Proof.
  intros. unfold dual_val. rewrite !vsc_length.
  assert (G : forall n a b, bsum n (fun i => nth i (vsc e a) 0 * nth i (vsc c b) 0)
                            == c * e * bsum n (fun i => nth i a 0 * nth i b 0)).
  { intros. rewrite <- bsum_scal. apply bsum_ext. intros. rewrite !nth_vsc. ring. }
  rewrite !G. ring.
Qed.

Lemma feasible_scale : forall c p q Y, 0 < c -> feasible p q Y -> feasible (vsc c p) (vsc c q) (msc c Y).
Proof.
  intros c p q Y Hc (Hpos & Hrow & Hcol). unfold feasible. rewrite !vsc_length. split; [|split].
  - intros i j Hi Hj. rewrite entry_msc. specialize (Hpos i j Hi Hj). nra.
  - intros i Hi. rewrite rsum_msc, nth_vsc, (Hrow i Hi). reflexivity.
  - intros j Hj. rewrite csum_msc, nth_vsc, (Hcol j Hj). reflexivity.
Qed.

Lemma feasible_unscale : forall c p q Y, 0 < c ->
  feasible (vsc (/ c) p) (vsc (/ c) q) Y -> feasible p q (msc c Y).
Proof.
  intros c p q Y Hc (Hpos & Hrow & Hcol). unfold feasible in *. rewrite !vsc_length in *. split; [|split].
  - intros i j Hi Hj. rewrite entry_msc. specialize (Hpos i j Hi Hj). nra.
  - intros i Hi. rewrite rsum_msc, (Hrow i Hi), nth_vsc. field. lra.
  - intros j Hj. rewrite csum_msc, (Hcol j Hj), nth_vsc. field. lra.
Qed.

Lemma Qmax_scale : forall a x y, 0 <= a -> Qmax (a * x) (a * y) == a * Qmax x y.
Proof.
  intros a x y Ha. destruct (Q.max_spec x y) as [[L E]|[L E]]; rewrite E.
  - apply Q.max_r. nra.
  - apply Q.max_l. nra.
Qed.

Theorem check_plan_scaled_sound : forall (s k : Q) (P Q0 : vec) (Ci Xi : mat) (U V : vec) (N : mat) (delta eps unit : Q),
  0 < s -> 0 < k ->
  check_plan P Q0 Ci Xi U V N delta eps unit = true ->
  let p := vsc (/ s) P in
  let q := vsc (/ s) Q0 in
  let C := msc (/ k) Ci in
  let X := msc (/ s) Xi in
  let u := vsc (/ k) U in
  let v := vsc (/ k) V in
  let X' := msc (/ s) N in
  let n := length P in
  let m := length Q0 in
  let D := dual_val p q u v in
  (forall i j, 0 <= entry X i j) /\
  (forall i, (i < n)%nat -> Qabs (rsum X m i - nth i p 0) <= delta / s) /\
  (forall j, (j < m)%nat -> Qabs (csum X n j - nth j q 0) <= delta / s) /\
  feasible p q X' /\
  dual_feasible n m C u v /\
  (forall X'', feasible p q X'' -> D <= cost n m X'' C) /\
  (forall opt, is_opt p q C opt ->
     D <= opt /\ opt <= cost n m X' C /\
     Qabs (cost n m X C - opt) <= eps * Qmax (unit / (s * k)) opt).
Proof.
  intros s k P Q0 Ci Xi U V N delta eps unit Hs Hk H p q C X u v X' n m D.
  destruct (check_plan_facts P Q0 Ci Xi U V N delta eps unit H) as (F1 & F2 & F3 & F4 & F5 & He & B1 & B2).
  fold n m in F2, F3, F5, B1, B2.
  assert (Is : 0 < / s) by (apply Qinv_lt_0_compat; assumption).
  assert (Ik : 0 < / k) by (apply Qinv_lt_0_compat; assumption).
  assert (Es : s * / s == 1) by (field; lra).
  assert (Ek : k * / k == 1) by (field; lra).
  assert (Lp : length p = n) by (apply vsc_length).
  assert (Lq : length q = m) by (apply vsc_length).
  assert (FX' : feasible p q X') by (apply feasible_scale; assumption).
  assert (DF : dual_feasible n m C u v).
  { intros i j Hi Hj. unfold u, v, C. rewrite !nth_vsc, entry_msc. specialize (F5 i j Hi Hj). nra. }
  assert (WD : forall X'', feasible p q X'' -> D <= cost n m X'' C).
  { intros X'' F. unfold D. rewrite <- Lp, <- Lq. apply weak_duality; [assumption|]. rewrite Lp, Lq. exact DF. }
  assert (ED : D == / s * / k * dual_val P Q0 U V) by (apply dual_val_vsc).
  assert (EX : cost n m X C == / s * / k * cost n m Xi Ci) by (apply cost_msc).
  assert (EX' : cost n m X' C == / s * / k * cost n m N Ci) by (apply cost_msc).
  split; [|split; [|split; [|split; [|split; [|split]]]]].
  - intros i j. unfold X. rewrite entry_msc. specialize (F1 i j). nra.
  - intros i Hi. unfold X, p. rewrite rsum_msc, nth_vsc. specialize (F2 i Hi).
    apply Qabs_Qle_condition in F2. apply Qabs_Qle_condition. unfold Qdiv. split; nra.
  - intros j Hj. unfold X, q. rewrite csum_msc, nth_vsc. specialize (F3 j Hj).
    apply Qabs_Qle_condition in F3. apply Qabs_Qle_condition. unfold Qdiv. split; nra.
  - exact FX'.
  - exact DF.
  - exact WD.
  - intros opt [L G].
    assert (O1 : D <= opt) by (apply G; rewrite Lp, Lq; exact WD).
    assert (O2 : opt <= cost n m X' C) by (rewrite <- Lp, <- Lq; apply L; exact FX').
    split; [exact O1|]. split; [exact O2|].
    set (a := / s * / k) in *.
    assert (Ha : 0 < a) by (unfold a; nra).
    assert (T : eps * Qmax (unit / (s * k)) D == a * (eps * Qmax unit (dual_val P Q0 U V))).
    { assert (E1 : unit / (s * k) == a * unit) by (unfold a; field; lra).
      rewrite E1, ED, Qmax_scale by lra. ring. }
    apply Qle_trans with (eps * Qmax (unit / (s * k)) D).
    + apply bracket with (D := D) (U := cost n m X' C); try assumption.
      * rewrite T, EX, EX'. nra.
      * rewrite T, EX, ED. nra.
    + assert (M : Qmax (unit / (s * k)) D <= Qmax (unit / (s * k)) opt) by (apply Q.max_le_compat_l; assumption).
      nra.
Qed.

(* when the optimum is attained by some plan Xo, its cost is the infimum *)
Lemma optimal_plan_is_opt : forall p q C Xo, optimal_plan p q C Xo ->
  is_opt p q C (cost (length p) (length q) Xo C).
Proof. intros p q C Xo [F M]. split; [exact M | intros b Hb; apply Hb, F]. Qed.

(* ---------------------------------------------------------------- index map of the glue *)
Open Scope Z_scope.

Lemma arc_index : forall n m i j, 0 <= i < n -> 0 <= j < m ->
  let a := arc_of m i j in
  0 <= a < n * m /\ a / m = i /\ a mod m = j.
Proof.
  intros n m i j Hi Hj a. unfold a, arc_of.
  assert (0 < m) by lia.
  split; [nia|]. split.
  - rewrite Z.div_add_l by lia. rewrite Z.div_small by lia. lia.
  - rewrite Z.add_comm, Z.mod_add by lia. apply Z.mod_small; lia.
Qed.

Lemma arc_of_injective : forall m i j i' j', 0 <= j < m -> 0 <= j' < m ->
  arc_of m i j = arc_of m i' j' -> i = i' /\ j = j'.
Proof. unfold arc_of. intros. assert (i = i') by nia. subst. split; lia. Qed.

Lemma arc_id_range : forall N a, 0 <= a < N -> 0 <= arc_id N a < N.
Proof. unfold arc_id. lia. Qed.

Lemma arc_id_involutive : forall N a, arc_id N (arc_id N a) = a.
Proof. unfold arc_id. lia. Qed.

(* the flow slot read for cell (i, j) holds the arc from the node of row i to the node of column j *)
Lemma arc_slot_endpoints : forall n m i j, 0 <= i < n -> 0 <= j < m ->
  let pos := arc_id (n * m) (arc_of m i j) in
  0 <= pos < n * m /\
  stored_arc (n * m) pos = arc_of m i j /\
  src_node n m pos = node_slot n m i /\
  tgt_node n m pos = node_slot n m (n + j).
Proof.
  intros n m i j Hi Hj pos.
  destruct (arc_index n m i j Hi Hj) as (R & Dv & Md).
  assert (S : stored_arc (n * m) pos = arc_of m i j) by (unfold pos, stored_arc, arc_id; lia).
  split; [apply arc_id_range; exact R|]. split; [exact S|].
  unfold src_node, tgt_node, node_slot. rewrite S, Dv, Md. lia.
Qed.

(* distinct cells read distinct slots: the plan is a re-indexing of the first n*m flow entries *)
Lemma arc_slot_injective : forall n m i j i' j', 0 <= i < n -> 0 <= j < m -> 0 <= i' < n -> 0 <= j' < m ->
  arc_id (n * m) (arc_of m i j) = arc_id (n * m) (arc_of m i' j') -> i = i' /\ j = j'.
Proof. intros. apply (arc_of_injective m); try lia. unfold arc_id in *. lia. Qed.

Lemma get_transport_plan_entry : forall {A} (d : A) flow (n m i j : nat), (i < n)%nat -> (j < m)%nat ->
  nth j (nth i (get_transport_plan d flow n m) []) d
  = getZ d flow (Z.of_nat n * Z.of_nat m - (Z.of_nat i * Z.of_nat m + Z.of_nat j) - 1).
Proof.
  intros A d flow n m i j Hi Hj. unfold get_transport_plan.
  rewrite nth_indep with (d' := map (fun j0 => getZ d flow (arc_id (Z.of_nat n * Z.of_nat m)
     (arc_of (Z.of_nat m) (Z.of_nat 0) (Z.of_nat j0)))) (seq 0 m)) by (rewrite map_length, seq_length; lia).
  rewrite (map_nth (fun i0 => map (fun j0 => getZ d flow (arc_id (Z.of_nat n * Z.of_nat m)
     (arc_of (Z.of_nat m) (Z.of_nat i0) (Z.of_nat j0)))) (seq 0 m)) (seq 0 n) 0%nat i).
  rewrite seq_nth by lia.
  rewrite nth_indep with (d' := getZ d flow (arc_id (Z.of_nat n * Z.of_nat m)
     (arc_of (Z.of_nat m) (Z.of_nat (0 + i)) (Z.of_nat 0)))) by (rewrite map_length, seq_length; lia).
  rewrite (map_nth (fun j0 => getZ d flow (arc_id (Z.of_nat n * Z.of_nat m)
     (arc_of (Z.of_nat m) (Z.of_nat (0 + i)) (Z.of_nat j0)))) (seq 0 m) 0%nat j).
  rewrite seq_nth by lia. reflexivity.
Qed.
