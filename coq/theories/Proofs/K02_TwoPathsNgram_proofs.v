(* Proofs about Model/K02_TwoPathsNgram.v: NgramVectorizer's transform of the training data is _train_matrix (with
   pruning, mask_string, nullify_mask); the model specialises to Model/K7_Ngrams.v without a mask; shape and unseen
   tokens of transform in mask mode. *)
From Coq Require Import ZArith List Bool Arith Lia.
From VZ Require Import Model.K5_Vocab Model.K6_Reindex Model.K02_TwoPaths Model.K02_TwoPathsNgram.
From VZ Require Import Proofs.K5_Vocab_proofs Proofs.K6_Reindex_proofs Proofs.K02_TwoPaths_proofs.
From VZ Require Model.K10_Assembly Model.K7_Ngrams Proofs.K10_Assembly_proofs Proofs.K7_Ngrams_proofs.
Import ListNotations.
Open Scope Z_scope.

Module AP := K10_Assembly_proofs.
Module NP := K7_Ngrams_proofs.

Lemma Zeqb_eq : forall a b, Z.eqb a b = true <-> a = b.
Proof. intros. apply Z.eqb_eq. Qed.

Section NgvProofs.
Variable matches : Z -> bool.
Variables f32div f64div : Z -> Z -> Z.
Variable f64to32 : Z -> Z.
Variable one64 : Z.
Variable prm : ngv_params.

Notation preprocess := (preprocess Z Z.eqb Z.ltb matches f32div f64div f64to32 one64).
Notation ngv_fit := (ngv_fit matches f32div f64div f64to32 one64 prm).
Notation ngv_fit_transform := (ngv_fit_transform matches f32div f64div f64to32 one64 prm).
Notation ngv_transform := (ngv_transform matches f32div f64div f64to32 one64 prm).

Theorem ngv_two_paths : forall learn_cold c td nd X M train,
  ngv_fit learn_cold c td nd X = Ok (M, train) ->
  ngv_fit_transform learn_cold c td nd X = Ok train /\ ngv_transform M X = Ok train.
Proof.
  intros learn_cold c td nd X M train H. split.
  - unfold K02_TwoPathsNgram.ngv_fit_transform. rewrite H. reflexivity.
  - unfold K02_TwoPathsNgram.ngv_fit in H. unfold K02_TwoPathsNgram.ngv_transform.
    destruct (preprocess c X td (np_mask prm)) as [[[seqs d] fr]|e] eqn:E; [|discriminate].
    destruct (match nd with
              | Some g => Ok g
              | None => if (np_size prm =? 1)%nat then Ok (KN.bare_dict (zdict d))
                        else learn_cold (zdict d) (KN.invert (zdict d)) (grams_of prm seqs)
              end) as [cold|e]; [|discriminate].
    inversion H; subst M train; clear H. simpl.
    destruct (tok_reindex_idem Z Z.eqb Z.ltb matches f32div f64div f64to32 one64 Zeqb_eq
                c (default_config Z) X td (np_mask prm) seqs d fr E) as [fr' E'].
    rewrite E'. reflexivity.
Qed.

Lemma preprocess_given : forall c X d masking,
  exists fr, preprocess c X (Some d) masking
             = Ok (fst (reindex Z Z.eqb masking d X), snd (reindex Z Z.eqb masking d X), fr).
Proof.
  intros c X d masking.
  destruct (tok_prep_given Z Z.eqb Z.ltb matches f32div f64div f64to32 one64 c X d masking) as [fr H].
  exists fr. rewrite <- tok_preprocess_is_K6. exact H.
Qed.

Theorem ngv_transform_unfold : forall M X,
  ngv_transform M X = Ok (count_matrix M (grams_of prm (fst (reindex Z Z.eqb (np_mask prm) (nv_dict M) X)))).
Proof.
  intros M X. unfold K02_TwoPathsNgram.ngv_transform.
  destruct (preprocess_given (default_config Z) X (nv_dict M) (np_mask prm)) as [fr E]. rewrite E. reflexivity.
Qed.

(* ---------- shape ---------- *)
Lemma reindex_fst_length : forall masking (d : dict Z) (X : list (list Z)),
  length (fst (reindex Z Z.eqb masking d X)) = length X.
Proof. intros [m|] d X; simpl; apply map_length. Qed.

Lemma count_doc_skip_keys : forall skip inv cold grams c,
  In c (map fst (count_doc_skip skip inv cold grams)) -> In c (map snd cold).
Proof.
  intros skip inv cold grams c. unfold count_doc_skip.
  assert (G : forall ctr, (forall x, In x (map fst ctr) -> In x (map snd cold)) ->
            In c (map fst (fold_left (fun counter g =>
               match KN.col_of inv cold g with
               | Some c => if match skip with Some mc => c =? mc | None => false end then counter
                           else KN.incr c counter
               | None => counter
               end) grams ctr)) -> In c (map snd cold)).
  { induction grams as [|g grams IH]; intros ctr Hc; simpl; [apply Hc|]. apply IH.
    destruct (KN.col_of inv cold g) as [c0|] eqn:E; [|exact Hc].
    destruct (match skip with Some mc => c0 =? mc | None => false end); [exact Hc|].
    intros x Hx. apply NP.incr_keys in Hx. destruct Hx as [->|Hx]; [|apply Hc; exact Hx].
    unfold KN.col_of in E. destruct (KN.token_gram inv g) as [k|]; [|discriminate].
    apply NP.glookup_In in E. apply in_map_iff. exists (k, c0). split; [reflexivity|exact E]. }
  apply G. intros x [].
Qed.

Theorem ngv_transform_shape : forall M X,
  Forall (fun kv => 0 <= snd kv < Z.of_nat (length (nv_cold M))) (nv_cold M) ->
  exists R, ngv_transform M X = Ok R /\
    KA.nrows R = Z.of_nat (length X) /\ KA.ncols R = Z.of_nat (length (nv_cold M)) /\
    forall t, In t (KA.entries R) -> 0 <= KA.trow t < KA.nrows R /\ 0 <= KA.tcol t < KA.ncols R.
Proof.
  intros M X W. rewrite ngv_transform_unfold. eexists. split; [reflexivity|].
  unfold count_matrix, KA.nrows, KA.ncols, KA.entries, grams_of. simpl. rewrite map_length, reindex_fst_length.
  split; [reflexivity|]. split; [reflexivity|]. intros t Ht. apply in_flat_map in Ht. destruct Ht as [i [Hi Ht]].
  apply in_seq in Hi. apply in_map_iff in Ht. destruct Ht as [[c v] [<- Hcv]]. unfold KA.trow, KA.tcol. simpl.
  split; [lia|].
  assert (Hc : In c (map snd (nv_cold M))).
  { eapply count_doc_skip_keys. apply in_map_iff. exists (c, v). split; [reflexivity|exact Hcv]. }
  apply in_map_iff in Hc. destruct Hc as [kv [<- Hkv]]. rewrite Forall_forall in W. exact (W _ Hkv).
Qed.

(* ---------- unseen tokens ---------- *)
Theorem ngv_transform_mask_unseen : forall m M X, np_mask prm = Some m ->
  ngv_transform M (mask_unseen Z.eqb m (nv_dict M) X) = ngv_transform M X.
Proof.
  intros m M X Hm. rewrite !ngv_transform_unfold, Hm. rewrite (reindex_mask_unseen Z Z.eqb Zeqb_eq). reflexivity.
Qed.

Theorem ngv_transform_strip_unseen : forall M X, np_mask prm = None ->
  ngv_transform M (strip_unseen Z.eqb (nv_dict M) X) = ngv_transform M X.
Proof.
  intros M X Hm. rewrite !ngv_transform_unfold, Hm. rewrite (reindex_strip_unseen Z Z.eqb). reflexivity.
Qed.

(* ---------- the special case modelled by Model/K7_Ngrams.v ---------- *)
Lemma lookup_zdict : forall (d : dict Z) t,
  KA.lookup t (zdict d) = option_map Z.of_nat (lookup Z Z.eqb d t).
Proof.
  intros d t. unfold KA.lookup. induction d as [|[k v] d IH]; simpl; [reflexivity|].
  rewrite (Z.eqb_sym k t). destruct (t =? k); [reflexivity|exact IH].
Qed.

Lemma zseq_reindex_delete : forall (d : dict Z) s, zseq (reindex_delete Z Z.eqb d s) = KA.kept (zdict d) s.
Proof.
  intros d s. unfold zseq, reindex_delete, KA.kept. induction s as [|t s IH]; simpl; [reflexivity|].
  rewrite lookup_zdict. destruct (lookup Z Z.eqb d t); simpl; rewrite ?IH; reflexivity.
Qed.

Theorem ngv_transform_is_K7 : forall M X, np_mask prm = None -> nv_mask_col M = None ->
  ngv_transform M X = Ok (KN.ng_transform (to_K7 prm M) X).
Proof.
  intros M X Hm Hc. rewrite ngv_transform_unfold, Hm. f_equal. simpl.
  unfold count_matrix, KN.ng_transform, to_K7, grams_of. rewrite !map_length. rewrite Hc. simpl.
  f_equal. apply flat_map_ext. intro i. f_equal.
  change (count_doc_skip None (nv_inv M) (nv_cold M)) with (KN.count_doc (nv_inv M) (nv_cold M)).
  f_equal. unfold KN.doc_grams. simpl.
  rewrite map_map.
  change (@nil (list Z)) with
    ((fun s => KN.ngrams_of (zseq (reindex_delete Z Z.eqb (nv_dict M) s)) (np_size prm) (np_beh prm)) []) at 1.
  rewrite map_nth. rewrite zseq_reindex_delete. reflexivity.
Qed.

End NgvProofs.
