(* K1, array level, part 2: every operation of the accumulator preserves the invariant, does not fault and keeps the
   sum by key of the live entries; the top-level induction over the event list. *)
From Coq Require Import ZArith List Bool Lia Sorting.Sorted Permutation.
From VZ Require Import Model.K01_CooAcc Proofs.K01_CooAcc_list Proofs.K01_CooAcc_arrays.
Import ListNotations.
Open Scope Z_scope.

Section WithQ.
(* Q : any property of (row, col, key) that every event has (e.g. key = col + mul * row): the accumulator only copies
   (row, col, key) triples, so every live entry has it too *)
Variable Q : Z * Z * Z -> Prop.

Definition keys_nonneg (l : list entry) : Prop := Forall (fun e => 0 <= e_key e /\ Q (rck e)) l.

Lemma keys_nonneg_rlc l : keys_nonneg l -> keys_nonneg (rlc l).
Proof.
  intros H. apply (rlc_forall (fun t => 0 <= snd t /\ Q t)). exact H.
Qed.

Lemma keys_nonneg_keys l : keys_nonneg l -> Forall (fun e => 0 <= e_key e) l.
Proof. intros H. eapply Forall_impl; [|exact H]. simpl. intros e He. apply He. Qed.

Lemma keys_nonneg_perm a b : Permutation a b -> keys_nonneg a -> keys_nonneg b.
Proof. intros P H. eapply Permutation_Forall; eassumption. Qed.

Lemma keys_nonneg_app a b : keys_nonneg (a ++ b) <-> keys_nonneg a /\ keys_nonneg b.
Proof. apply Forall_app. Qed.

(* ------------------------------------------------------------------ live region and slices *)
Lemma firstn_slice {A} (b : list A) lo up : 0 <= lo <= up ->
  firstn (Z.to_nat up) b = firstn (Z.to_nat lo) b ++ slice b lo up.
Proof.
  intros H. unfold slice. replace (Z.to_nat up) with (Z.to_nat lo + Z.to_nat (up - lo))%nat by lia.
  apply firstn_add.
Qed.

Lemma live_eq c : live c = firstn (Z.to_nat (ind c)) (buf c).
Proof. reflexivity. Qed.

(* ------------------------------------------------------------------ merge_level *)
Lemma merge_level_ok c i lo mid :
  0 <= i -> i + 1 < zlen (mn c) ->
  nthZ (mn c) i = mid -> Z.abs (nthZ (mn c) (i + 1)) = lo ->
  lo <= mid -> mid <= ind c -> ind c <= cap c ->
  keys_nonneg (slice (buf c) lo (ind c)) ->
  exists c' f,
    merge_level c i = Ok c' /\ mn c' = mn c /\ depth c' = depth c /\ cap c' = cap c /\
    lo <= ind c' <= ind c /\
    live c' = firstn (Z.to_nat lo) (buf c)
              ++ rlc (interleave f (slice (buf c) lo mid) (slice (buf c) mid (ind c))) /\
    (length (slice (buf c) lo mid) + length (slice (buf c) mid (ind c)) <= f)%nat.
Proof.
  intros Hi Hi1 Hmid Hlo Hlm Hmu Huc Hk.
  assert (Hlo0 : 0 <= lo) by (subst lo; apply Z.abs_nonneg).
  unfold cap in Huc. set (b := buf c) in *. set (up := ind c) in *.
  unfold merge_level.
  rewrite (getZ_nthZ _ (mn c) i) by lia. simpl bind.
  rewrite (getZ_nthZ _ (mn c) (i + 1)) by lia. simpl bind.
  rewrite Hmid, Hlo. fold b. fold up.
  replace (up - lo + 1 <=? 0) with false by (symmetry; apply Z.leb_gt; lia).
  set (A := slice b lo mid). set (B := slice b mid up).
  assert (SA : seg b lo mid A) by (apply seg_slice; lia).
  assert (SB : seg b mid up B) by (apply seg_slice; lia).
  assert (LA : zlen A = mid - lo) by apply SA. assert (LB : zlen B = up - mid) by apply SB.
  set (fuel := (Z.to_nat (mid - lo) + Z.to_nat (up - mid))%nat).
  assert (Hfuel : (length A + length B <= fuel)%nat) by (unfold fuel, zlen in *; lia).
  rewrite (merge_loop_ok b mid up (up - lo + 1) fuel A B lo mid [sentinel] SA SB Hfuel)
    by (try discriminate; zl; lia).
  simpl bind.
  set (I := interleave fuel A B).
  assert (PI : Permutation (A ++ B) I) by apply interleave_perm.
  assert (HAB : slice b lo up = A ++ B) by (apply seg_split; lia).
  assert (KI : keys_nonneg I) by (eapply keys_nonneg_perm; [exact PI|rewrite <- HAB; exact Hk]).
  destruct (fold_step_sentinel I (keys_nonneg_keys I KI)) as [T1 T2].
  set (acc := fold_left step I [sentinel]) in *.
  rewrite T1, T2.
  assert (LI : zlen (rlc I) <= up - lo).
  { pose proof (rlc_length I). pose proof (interleave_length fuel A B). fold I in H0.
    unfold zlen in *. lia. }
  pose proof (zlen_nonneg (rlc I)) as LI0.
  destruct (assign_slice_ok S_ms_writeback b lo up
              (rlc I ++ repeat zero_entry (Z.to_nat (up - lo + 1 - 1 - zlen (rlc I))))) as (b' & E1 & E2 & E3);
    [lia|lia|zl; lia|].
  rewrite E1. simpl bind.
  eexists. exists fuel. split; [reflexivity|]. simpl.
  split; [reflexivity|]. split; [reflexivity|]. split; [unfold cap; simpl; exact E3|].
  split; [lia|]. split; [|exact Hfuel].
  unfold live. simpl. rewrite E2.
  replace (firstn (Z.to_nat lo) b ++
           (rlc I ++ repeat zero_entry (Z.to_nat (up - lo + 1 - 1 - zlen (rlc I)))) ++ skipn (Z.to_nat up) b)
    with ((firstn (Z.to_nat lo) b ++ rlc I) ++
          repeat zero_entry (Z.to_nat (up - lo + 1 - 1 - zlen (rlc I))) ++ skipn (Z.to_nat up) b)
    by (rewrite <- !app_assoc; reflexivity).
  apply firstnZ_app. zl. rewrite zlen_firstn by lia. reflexivity.
Qed.

(* ------------------------------------------------------------------ the sort + run-length phase of coo_sum_duplicates *)
Lemma add_val_first e : add_val (e_row e, e_col e, 0, e_key e) (e_val e) = e.
Proof. destruct e as [[[r c] v] k]. reflexivity. Qed.

Lemma sd_phase c lo :
  1 <= zlen (mn c) -> Z.abs (nthZ (mn c) 0) = lo -> lo <= ind c -> ind c < cap c ->
  exists cm,
    coo_sum_duplicates c = merge_sum_duplicates cm /\
    mn cm = mn c /\ depth cm = depth c /\ cap cm = cap c /\ lo <= ind cm <= ind c /\
    live cm = firstn (Z.to_nat lo) (buf c) ++ rlc (sort_by_key (slice (buf c) lo (ind c))).
Proof.
  intros Hm Hlo Hlu Huc.
  assert (Hlo0 : 0 <= lo) by (subst lo; apply Z.abs_nonneg).
  unfold cap in Huc. set (b := buf c) in *. set (up := ind c) in *.
  unfold coo_sum_duplicates.
  rewrite (getZ_nthZ _ (mn c) 0) by lia. simpl bind. rewrite Hlo. fold b. fold up.
  set (W := sort_by_key (slice b lo up)).
  assert (LW : zlen W = up - lo).
  { unfold W, zlen. rewrite sort_length. fold (zlen (slice b lo up)). apply slice_length_le; lia. }
  destruct (assign_slice_ok S_sd_sort b lo up W) as (b1 & E1 & E2 & E3); [lia|lia|exact LW|].
  rewrite E1. simpl bind.
  set (P := firstn (Z.to_nat lo) b) in *. set (S := skipn (Z.to_nat up) b) in *.
  assert (LP : zlen P = lo) by (apply zlen_firstn; lia).
  destruct W as [|e0 t] eqn:EW.
  - (* empty window *)
    zl. assert (Hul : up = lo) by lia.
    assert (G : exists e0, getZ S_sd_first b1 lo = Ok e0).
    { destruct (split_at b1 lo) as [x Hx]; [lia|]. exists x. rewrite Hx. apply getZ_mid.
      rewrite zlen_firstn; lia. }
    destruct G as [e0 G]. rewrite G. simpl bind.
    rewrite Hul, Z.sub_diag. simpl sd_loop. simpl bind.
    replace (lo >? lo) with false by (symmetry; rewrite Z.gtb_ltb; apply Z.ltb_irrefl).
    simpl bind.
    eexists. split; [reflexivity|]. simpl. repeat split; try lia.
    + unfold cap; simpl. exact E3.
    + unfold live; simpl. rewrite E2. simpl. rewrite app_nil_r. apply firstnZ_app. symmetry; exact LP.
  - (* non-empty window e0 :: t *)
    zl. pose proof (zlen_nonneg t) as Lt.
    assert (G : getZ S_sd_first b1 lo = Ok e0).
    { rewrite E2. simpl. apply getZ_mid. symmetry; exact LP. }
    rewrite G. simpl bind.
    replace (Z.to_nat (up - lo)) with (Datatypes.S (length t)) by (unfold zlen in LW; lia).
    (* first iteration: key[lo] = this_key *)
    assert (G2 : getZ S_sd_read b1 lo = Ok e0).
    { rewrite E2. simpl. apply getZ_mid. symmetry; exact LP. }
    simpl sd_loop. rewrite G2. simpl bind.
    rewrite Z.eqb_refl.
    replace (e_row e0, e_col e0, e_val e0, e_key e0) with e0 by (destruct e0 as [[[? ?] ?] ?]; reflexivity).
    destruct (sd_loop_gen t [] [e0] e0 P S) as (J' & H1 & H2 & H3); [discriminate|].
    assert (Eb : b1 = P ++ [] ++ [e0] ++ t ++ S) by (rewrite E2; reflexivity).
    assert (Z1 : zlen (P ++ [] ++ [e0]) = lo + 1) by (zl; lia).
    assert (Z2 : zlen (P ++ []) = lo) by (zl; lia).
    rewrite Z1, Z2, <- Eb in H1.
    rewrite H1. simpl bind.
    destruct (rl e0 t) as [d th] eqn:Er. simpl fst in *. simpl snd in *.
    replace (up >? lo) with true by (symmetry; rewrite Z.gtb_ltb; apply Z.ltb_lt; lia).
    destruct J' as [|j1 J'']; [contradiction|].
    assert (W3 : setZ S_sd_flush (P ++ d ++ (j1 :: J'') ++ S) (lo + zlen d) th
                 = Ok ((P ++ d) ++ th :: J'' ++ S)).
    { replace (P ++ d ++ (j1 :: J'') ++ S) with ((P ++ d) ++ j1 :: J'' ++ S)
        by (simpl; rewrite <- !app_assoc; reflexivity).
      apply setZ_mid. zl. lia. }
    rewrite W3. simpl bind.
    eexists. split; [reflexivity|]. simpl.
    zl. zl. pose proof (zlen_nonneg J''). pose proof (zlen_nonneg d). repeat split; try lia.
    + unfold cap; simpl. fold b. rewrite <- E3, E2. zl. lia.
    + unfold live; simpl. unfold rlc. rewrite Er.
      replace ((P ++ d) ++ th :: J'' ++ S) with ((P ++ d ++ [th]) ++ J'' ++ S)
        by (rewrite <- !app_assoc; reflexivity).
      apply firstnZ_app. zl. lia.
Qed.

(* ------------------------------------------------------------------ the level counter *)
Fixpoint cnt_range (m : list Z) (lo : Z) (n : nat) : Z :=
  match n with
  | O => 0
  | S n' => (if nthZ m lo >? 0 then 2 ^ lo else 0) + cnt_range m (lo + 1) n'
  end.
Fixpoint npos_range (m : list Z) (lo : Z) (n : nat) : Z :=
  match n with
  | O => 0
  | S n' => (if nthZ m lo >? 0 then 1 else 0) + npos_range m (lo + 1) n'
  end.
Definition cnt (m : list Z) (d : Z) : Z := cnt_range m 0 (Z.to_nat d).

Lemma cnt_range_ext m m' n : forall lo,
  (forall j, lo <= j < lo + Z.of_nat n -> nthZ m j = nthZ m' j) -> cnt_range m lo n = cnt_range m' lo n.
Proof.
  induction n as [|n IH]; intros lo H; simpl; [reflexivity|].
  rewrite (H lo) by lia. f_equal. apply IH. intros j Hj. apply H. lia.
Qed.

Lemma cnt_range_split m n k : forall lo,
  cnt_range m lo (n + k) = cnt_range m lo n + cnt_range m (lo + Z.of_nat n) k.
Proof.
  induction n as [|n IH]; intros lo.
  - simpl. rewrite Z.add_0_r. lia.
  - change (S n + k)%nat with (S (n + k)). change (cnt_range m lo (S (n + k))) with
      ((if nthZ m lo >? 0 then 2 ^ lo else 0) + cnt_range m (lo + 1) (n + k)).
    change (cnt_range m lo (S n)) with ((if nthZ m lo >? 0 then 2 ^ lo else 0) + cnt_range m (lo + 1) n).
    rewrite IH. replace (lo + 1 + Z.of_nat n) with (lo + Z.of_nat (S n)) by lia. lia.
Qed.

Lemma cnt_range_nonneg m n : forall lo, 0 <= lo -> 0 <= cnt_range m lo n.
Proof.
  induction n as [|n IH]; intros lo H; simpl; [lia|].
  specialize (IH (lo + 1)). pose proof (Z.pow_nonneg 2 lo). destruct (nthZ m lo >? 0); lia.
Qed.

Lemma cnt_range_pos m n : forall lo, 0 <= lo ->
  (forall j, lo <= j < lo + Z.of_nat n -> nthZ m j > 0) -> cnt_range m lo n = 2 ^ (lo + Z.of_nat n) - 2 ^ lo.
Proof.
  induction n as [|n IH]; intros lo H0 H; simpl cnt_range.
  - rewrite Z.add_0_r. lia.
  - replace (nthZ m lo >? 0) with true by (symmetry; apply Z.gtb_lt; specialize (H lo); lia).
    rewrite IH by (try lia; intros; apply H; lia).
    replace (lo + 1 + Z.of_nat n) with (lo + Z.of_nat (S n)) by lia.
    rewrite (Z.pow_add_r 2 lo 1) by lia. lia.
Qed.

Lemma cnt_range_nonpos m n : forall lo,
  (forall j, lo <= j < lo + Z.of_nat n -> nthZ m j <= 0) -> cnt_range m lo n = 0.
Proof.
  induction n as [|n IH]; intros lo H; simpl cnt_range; [reflexivity|].
  replace (nthZ m lo >? 0) with false by (symmetry; rewrite Z.gtb_ltb; apply Z.ltb_ge; specialize (H lo); lia).
  rewrite IH; [lia|]. intros; apply H; lia.
Qed.

Lemma npos_range_bounds m n : forall lo, 0 <= npos_range m lo n <= Z.of_nat n.
Proof.
  induction n as [|n IH]; intros lo; simpl npos_range; [lia|].
  specialize (IH (lo + 1)). destruct (nthZ m lo >? 0); lia.
Qed.

(* m occupied levels weigh at least 2^m - 1 *)
Lemma cnt_range_npos m n : forall lo, 0 <= lo ->
  2 ^ lo * (2 ^ npos_range m lo n - 1) <= cnt_range m lo n.
Proof.
  induction n as [|n IH]; intros lo H0; simpl; [lia|].
  specialize (IH (lo + 1) ltac:(lia)).
  pose proof (npos_range_bounds m n (lo + 1)) as B.
  set (k := npos_range m (lo + 1) n) in *.
  assert (P1 : 2 ^ (lo + 1) = 2 * 2 ^ lo) by (rewrite Z.pow_add_r by lia; lia).
  pose proof (Z.pow_pos_nonneg 2 lo ltac:(lia) H0) as P2.
  pose proof (Z.pow_pos_nonneg 2 k ltac:(lia) ltac:(lia)) as P3.
  destruct (nthZ m lo >? 0).
  - rewrite (Z.add_comm 1 k), Z.pow_add_r by lia. nia.
  - simpl. nia.
Qed.

(* ------------------------------------------------------------------ invariant pieces on the min stack *)
Definition chain_from (m : list Z) (i d : Z) : Prop :=
  forall j, i <= j < d -> Z.abs (nthZ m (j + 1)) <= Z.abs (nthZ m j).
Definition zeros_above (m : list Z) (d : Z) : Prop := forall j, d <= j -> nthZ m j = 0.

Lemma live_slice_nonneg c lo : 0 <= lo <= ind c -> keys_nonneg (live c) -> keys_nonneg (slice (buf c) lo (ind c)).
Proof.
  intros H K. unfold live in K. rewrite (firstn_slice (buf c) lo (ind c)) in K by lia.
  apply keys_nonneg_app in K. apply K.
Qed.
Lemma live_prefix_nonneg c lo : 0 <= lo <= ind c -> keys_nonneg (live c) -> keys_nonneg (firstn (Z.to_nat lo) (buf c)).
Proof.
  intros H K. unfold live in K. rewrite (firstn_slice (buf c) lo (ind c)) in K by lia.
  apply keys_nonneg_app in K. apply K.
Qed.

(* ------------------------------------------------------------------ prefixes, slices and sortedness *)
Lemma firstn_skipn_comm' {A} : forall n m (l : list A), firstn m (skipn n l) = skipn n (firstn (n + m) l).
Proof.
  induction n as [|n IH]; intros m l; simpl; [reflexivity|]. destruct l as [|x l]; simpl; [apply firstn_nil|apply IH].
Qed.

Lemma slice_skipn_firstn {A} (b : list A) lo up : 0 <= lo <= up ->
  slice b lo up = skipn (Z.to_nat lo) (firstn (Z.to_nat up) b).
Proof.
  intros H. unfold slice. rewrite firstn_skipn_comm'. f_equal. f_equal. lia.
Qed.

Lemma firstn_firstn_le {A} : forall a L (b : list A), (a <= L)%nat -> firstn a (firstn L b) = firstn a b.
Proof.
  induction a as [|a IH]; intros L b H; [reflexivity|].
  destruct L as [|L]; [lia|]. destruct b as [|x b]; [reflexivity|]. simpl. f_equal. apply IH. lia.
Qed.

Lemma prefix_eq_le {A} (b b' : list A) a L : (a <= L)%nat -> firstn L b = firstn L b' -> firstn a b = firstn a b'.
Proof.
  intros H E. rewrite <- (firstn_firstn_le a L b H), <- (firstn_firstn_le a L b' H), E. reflexivity.
Qed.

Lemma slice_prefix_eq {A} (b b' : list A) a e L : 0 <= a -> e <= L ->
  firstn (Z.to_nat L) b = firstn (Z.to_nat L) b' -> slice b a e = slice b' a e.
Proof.
  intros Ha He E. destruct (Z_lt_le_dec e a).
  - unfold slice. replace (Z.to_nat (e - a)) with 0%nat by lia. reflexivity.
  - rewrite !slice_skipn_firstn by lia. f_equal. apply (prefix_eq_le b b' _ (Z.to_nat L)); [lia|exact E].
Qed.

Lemma firstn_upd {A} : forall n (l : list A) v, firstn n (upd l n v) = firstn n l.
Proof.
  induction n as [|n IH]; intros l v; [reflexivity|]. destruct l as [|x l]; [reflexivity|]. simpl. f_equal. apply IH.
Qed.

Lemma ssorted_nil : ssorted [].
Proof. constructor. Qed.

Lemma slice_empty {A} (b : list A) a : slice b a a = [].
Proof. unfold slice. rewrite Z.sub_diag. reflexivity. Qed.

Lemma chain_le m a d : chain_from m a d -> forall j, a <= j <= d -> Z.abs (nthZ m j) <= Z.abs (nthZ m a).
Proof.
  intros H j Hj. assert (G : forall n, (a + Z.of_nat n <= d) -> Z.abs (nthZ m (a + Z.of_nat n)) <= Z.abs (nthZ m a)).
  { induction n as [|n IH]; intros Hn.
    - rewrite Z.add_0_r. lia.
    - specialize (IH ltac:(lia)). specialize (H (a + Z.of_nat n) ltac:(lia)).
      replace (a + Z.of_nat (S n)) with (a + Z.of_nat n + 1) by lia. lia. }
  specialize (G (Z.to_nat (j - a))). replace (a + Z.of_nat (Z.to_nat (j - a))) with j in G by lia. apply G. lia.
Qed.

(* ------------------------------------------------------------------ msd_loop *)
Definition run_at (c : coo) (j : Z) : list entry :=
  slice (buf c) (Z.abs (nthZ (mn c) (j + 1))) (Z.abs (nthZ (mn c) j)).

Lemma msd_loop_ok : forall n i c,
  i = depth c - Z.of_nat n -> 0 <= i ->
  depth c < zlen (mn c) ->
  chain_from (mn c) i (depth c) ->
  Z.abs (nthZ (mn c) i) <= ind c -> ind c <= cap c ->
  keys_nonneg (live c) ->
  (forall j, i <= j < depth c -> ssorted (run_at c j)) ->
  ssorted (slice (buf c) (Z.abs (nthZ (mn c) i)) (ind c)) ->
  exists c' nd e,
    msd_loop n i c = Ok (c', nd) /\
    cap c' = cap c /\ depth c' = depth c /\ zlen (mn c') = zlen (mn c) /\ 0 <= ind c' <= ind c /\
    (forall k, sumby (live c') k = sumby (live c) k) /\ keys_nonneg (live c') /\
    (nd = true -> e = depth c /\ mn c' = mn c) /\
    (nd = false -> e < depth c /\ nthZ (mn c) e <= 0 /\
                   mn c' = upd (fill_prefix (mn c) e (- ind c')) (Z.to_nat e) (ind c')) /\
    i <= e <= depth c /\ (forall j, i <= j < e -> nthZ (mn c) j > 0) /\
    Z.abs (nthZ (mn c) e) <= ind c' /\
    ssorted (slice (buf c') (Z.abs (nthZ (mn c) e)) (ind c')) /\
    firstn (Z.to_nat (Z.abs (nthZ (mn c) e))) (buf c') = firstn (Z.to_nat (Z.abs (nthZ (mn c) e))) (buf c).
Proof.
  induction n as [|n IH]; intros i c Hi Hi0 Hd Hch Hmi Huc Hk Hruns Hnew.
  - simpl. exists c, true, i.
    pose proof (Z.abs_nonneg (nthZ (mn c) i)).
    split; [reflexivity|]. split; [reflexivity|]. split; [reflexivity|]. split; [reflexivity|].
    split; [lia|]. split; [reflexivity|]. split; [exact Hk|]. split; [intros _; split; [lia|reflexivity]|].
    split; [discriminate|]. split; [lia|]. split; [intros; lia|]. split; [exact Hmi|]. split; [exact Hnew|reflexivity].
  - simpl msd_loop. assert (Hid : i < depth c) by lia.
    rewrite (getZ_nthZ _ (mn c) i) by lia. simpl bind.
    pose proof (Z.abs_nonneg (nthZ (mn c) i)) as Habs.
    destruct (nthZ (mn c) i <=? 0) eqn:E.
    + apply Z.leb_le in E.
      rewrite setZ_ok by (rewrite zlen_fill_prefix; lia). simpl bind.
      exists (set_mn c (upd (fill_prefix (mn c) i (- ind c)) (Z.to_nat i) (ind c))), false, i.
      split; [reflexivity|]. unfold set_mn, cap, live; simpl.
      split; [reflexivity|]. split; [reflexivity|].
      split; [rewrite zlen_upd, zlen_fill_prefix; reflexivity|].
      split; [lia|]. split; [reflexivity|]. split; [exact Hk|]. split; [discriminate|].
      split; [intros _; split; [lia|split; [exact E|reflexivity]]|].
      split; [lia|]. split; [intros; lia|]. split; [exact Hmi|]. split; [exact Hnew|reflexivity].
    + apply Z.leb_gt in E.
      set (mid := nthZ (mn c) i) in *. set (lo := Z.abs (nthZ (mn c) (i + 1))).
      assert (Hlm : lo <= mid) by (specialize (Hch i ltac:(lia)); unfold lo; lia).
      assert (Hmu : mid <= ind c) by lia.
      assert (Hlo0 : 0 <= lo) by apply Z.abs_nonneg.
      assert (Hmid : Z.abs mid = mid) by lia.
      destruct (merge_level_ok c i lo mid) as (c1 & f & M1 & M2 & M3 & M4 & M5 & M6 & M7);
        auto; try lia.
      { apply live_slice_nonneg; [lia|exact Hk]. }
      rewrite M1. simpl bind.
      set (A := slice (buf c) lo mid) in *. set (B := slice (buf c) mid (ind c)) in *.
      assert (Hsum : forall k, sumby (live c1) k = sumby (live c) k).
      { intros k. rewrite M6, sumby_app, rlc_sumby.
        rewrite <- (sumby_perm (A ++ B) (interleave f A B) k (interleave_perm f A B)).
        unfold live. rewrite (firstn_slice (buf c) lo (ind c)) by lia.
        rewrite (sumby_app (firstn (Z.to_nat lo) (buf c))). f_equal.
        unfold A, B. rewrite <- seg_split by (unfold cap in *; lia). reflexivity. }
      assert (Hk1 : keys_nonneg (live c1)).
      { rewrite M6. apply keys_nonneg_app. split; [apply live_prefix_nonneg; [lia|exact Hk]|].
        apply keys_nonneg_rlc. eapply keys_nonneg_perm; [apply interleave_perm|].
        unfold A, B. rewrite <- seg_split by (unfold cap in *; lia). apply live_slice_nonneg; [lia|exact Hk]. }
      (* the prefix below lo is untouched, the region [lo, ind c1) is the merged run *)
      assert (LP : zlen (firstn (Z.to_nat lo) (buf c)) = lo) by (apply zlen_firstn; unfold cap in *; lia).
      assert (Hpre : firstn (Z.to_nat lo) (buf c1) = firstn (Z.to_nat lo) (buf c)).
      { rewrite <- (firstn_firstn_le (Z.to_nat lo) (Z.to_nat (ind c1)) (buf c1)) by lia.
        fold (live c1). rewrite M6. apply firstnZ_app. symmetry; exact LP. }
      assert (Hrun : slice (buf c1) lo (ind c1) = rlc (interleave f A B)).
      { rewrite slice_skipn_firstn by lia. fold (live c1). rewrite M6. apply skipnZ_app. symmetry; exact LP. }
      assert (SA : ssorted A).
      { specialize (Hruns i ltac:(lia)). unfold run_at in Hruns. fold lo in Hruns. fold mid in Hruns.
        rewrite Hmid in Hruns. exact Hruns. }
      assert (SB : ssorted B) by (unfold B; rewrite <- Hmid; exact Hnew).
      assert (SM : ssorted (rlc (interleave f A B))).
      { apply rlc_sorted, interleave_wsorted; [exact M7|apply ssorted_wsorted, SA|apply ssorted_wsorted, SB]. }
      destruct (IH (i + 1) c1) as (c' & nd & e & L1 & L2 & L3 & L4 & L5 & L6 & L7 & L8 & L9 & L10 & L11 & L12 & L13 & L14).
      * rewrite M3. lia.
      * lia.
      * rewrite M2, M3. exact Hd.
      * rewrite M2, M3. intros j Hj. apply Hch. lia.
      * rewrite M2. fold lo. lia.
      * rewrite M4. lia.
      * exact Hk1.
      * rewrite M3. intros j Hj. unfold run_at. rewrite M2.
        assert (Z.abs (nthZ (mn c) j) <= lo).
        { unfold lo. apply (chain_le (mn c) (i + 1) (depth c)); [intros q Hq; apply Hch; lia|lia]. }
        rewrite (slice_prefix_eq (buf c1) (buf c) _ _ lo); [apply Hruns; lia|apply Z.abs_nonneg|lia|exact Hpre].
      * rewrite M2. fold lo. rewrite Hrun. exact SM.
      * rewrite M2, M3, M4 in *. exists c', nd, e.
        assert (Hele : Z.abs (nthZ (mn c) e) <= lo).
        { unfold lo. apply (chain_le (mn c) (i + 1) (depth c)); [intros q Hq; apply Hch; lia|lia]. }
        split; [exact L1|]. split; [exact L2|]. split; [exact L3|]. split; [exact L4|]. split; [lia|].
        split; [intros k; rewrite L6; apply Hsum|]. split; [exact L7|]. split; [exact L8|]. split; [exact L9|].
        split; [lia|].
        split; [intros j Hj; destruct (Z.eq_dec j i) as [->|]; [fold mid; lia|apply L11; lia]|].
        split; [exact L12|]. split; [exact L13|].
        rewrite L14. apply (prefix_eq_le _ _ _ (Z.to_nat lo)); [lia|exact Hpre].
Qed.

(* ------------------------------------------------------------------ merge_sum_duplicates *)
Lemma pow2_pos z : 0 <= z -> 0 < 2 ^ z.
Proof. intros. apply Z.pow_pos_nonneg; lia. Qed.

Lemma cnt_all_pos m d : 0 <= d -> (forall j, 0 <= j < d -> nthZ m j > 0) -> cnt m d = 2 ^ d - 1.
Proof.
  intros H0 H. unfold cnt. rewrite cnt_range_pos; try lia.
  - rewrite Z2Nat.id by lia. simpl. lia.
  - intros j Hj. apply H. lia.
Qed.

(* the state of the min stack after the carry stopped at the free level i' *)
Lemma nthZ_carry m i' v j : 0 <= i' < zlen m ->
  nthZ (upd (fill_prefix m i' (- v)) (Z.to_nat i') v) j =
  if j =? i' then v else if (0 <=? j) && (j <? i') then - v else nthZ m j.
Proof.
  intros H. rewrite nthZ_upd by (rewrite zlen_fill_prefix; lia).
  destruct (j =? i'); [reflexivity|]. apply nthZ_fill_prefix. lia.
Qed.

Lemma cnt_carry m d i' v : 0 <= i' < d -> d < zlen m -> 0 <= v ->
  (forall j, 0 <= j < i' -> nthZ m j > 0) -> nthZ m i' <= 0 ->
  cnt (upd (fill_prefix m i' (- v)) (Z.to_nat i') v) d <= cnt m d + 1.
Proof.
  intros Hi Hd Hv Hpos Hfree. unfold cnt.
  set (m' := upd (fill_prefix m i' (- v)) (Z.to_nat i') v).
  replace (Z.to_nat d) with (Z.to_nat i' + (1 + Z.to_nat (d - i' - 1)))%nat by lia.
  rewrite !cnt_range_split. rewrite Z.add_0_l, !Z2Nat.id by lia.
  (* below i' *)
  rewrite (cnt_range_nonpos m').
  2:{ intros j Hj. unfold m'. rewrite nthZ_carry by lia.
      replace (j =? i') with false by (symmetry; apply Z.eqb_neq; lia).
      replace ((0 <=? j) && (j <? i')) with true
        by (symmetry; apply andb_true_iff; split; [apply Z.leb_le|apply Z.ltb_lt]; lia). lia. }
  rewrite (cnt_range_pos m) by (try lia; intros; apply Hpos; lia).
  (* at i' *)
  simpl (cnt_range _ i' 1). unfold m' at 1. rewrite nthZ_carry by lia. rewrite Z.eqb_refl.
  replace (nthZ m i' >? 0) with false by (symmetry; rewrite Z.gtb_ltb; apply Z.ltb_ge; lia).
  (* above i' *)
  rewrite (cnt_range_ext m' m).
  2:{ intros j Hj. unfold m'. rewrite nthZ_carry by lia.
      replace (j =? i') with false by (symmetry; apply Z.eqb_neq; lia).
      replace ((0 <=? j) && (j <? i')) with false; [reflexivity|].
      symmetry. apply andb_false_iff. right. apply Z.ltb_ge. lia. }
  rewrite Z2Nat.id by lia. replace (0 + i') with i' by lia.
  pose proof (pow2_pos i' ltac:(lia)). change (2 ^ 0) with 1. destruct (v >? 0); lia.
Qed.

Lemma cnt_newdepth m d v : 0 <= d -> d < zlen m -> 0 <= v ->
  cnt (upd (fill_prefix m d (- v)) (Z.to_nat d) v) (d + 1) <= 2 ^ d.
Proof.
  intros Hd Hl Hv. unfold cnt.
  set (m' := upd (fill_prefix m d (- v)) (Z.to_nat d) v).
  replace (Z.to_nat (d + 1)) with (Z.to_nat d + 1)%nat by lia.
  rewrite cnt_range_split. rewrite Z.add_0_l, Z2Nat.id by lia.
  rewrite (cnt_range_nonpos m').
  2:{ intros j Hj. unfold m'. rewrite nthZ_carry by lia.
      replace (j =? d) with false by (symmetry; apply Z.eqb_neq; lia).
      replace ((0 <=? j) && (j <? d)) with true
        by (symmetry; apply andb_true_iff; split; [apply Z.leb_le|apply Z.ltb_lt]; lia). lia. }
  simpl (cnt_range _ d 1). pose proof (pow2_pos d Hd). destruct (nthZ m' d >? 0); lia.
Qed.

Record stack_ok (c : coo) : Prop := {
  so_depth : 0 <= depth c < zlen (mn c);
  so_zeros : zeros_above (mn c) (depth c);
  so_chain : chain_from (mn c) 0 (depth c);
  so_ind   : Z.abs (nthZ (mn c) 0) <= ind c;
  so_keys  : keys_nonneg (live c);
  (* a free level has an empty run: its (non-positive) entry is minus the end of the nearest occupied level above *)
  so_free  : forall j, 0 <= j < depth c -> nthZ (mn c) j <= 0 -> Z.abs (nthZ (mn c) (j + 1)) = Z.abs (nthZ (mn c) j);
  (* the run of every level is strictly sorted by key *)
  so_runs  : forall j, 0 <= j < depth c -> ssorted (run_at c j) }.

Ltac andb_t := symmetry; apply andb_true_iff; split; [apply Z.leb_le|apply Z.ltb_lt]; lia.
Ltac andb_f := symmetry; apply andb_false_iff; right; apply Z.ltb_ge; lia.
Ltac eqb_f := symmetry; apply Z.eqb_neq; lia.

(* the stack after the carry stopped at level e (free, or e = depth: a new level) *)
Lemma carry_stack c c1 e d' :
  stack_ok c -> 0 <= e <= depth c -> e < zlen (mn c) -> d' = Z.max (depth c) (e + 1) -> d' < zlen (mn c) ->
  nthZ (mn c) e <= 0 -> (forall j, 0 <= j < e -> nthZ (mn c) j > 0) ->
  Z.abs (nthZ (mn c) e) <= ind c1 -> 0 <= ind c1 ->
  ssorted (slice (buf c1) (Z.abs (nthZ (mn c) e)) (ind c1)) ->
  firstn (Z.to_nat (Z.abs (nthZ (mn c) e))) (buf c1) = firstn (Z.to_nat (Z.abs (nthZ (mn c) e))) (buf c) ->
  keys_nonneg (live c1) ->
  stack_ok (mkCoo (buf c1) (ind c1) (upd (fill_prefix (mn c) e (- ind c1)) (Z.to_nat e) (ind c1)) d').
Proof.
  intros [Hd Hz Hch Hi Hk Hfree Hruns] He Hel Hd' Hd'l Hfe Hpos Hle Hi0 Hs Hpre Hk1.
  set (m' := upd (fill_prefix (mn c) e (- ind c1)) (Z.to_nat e) (ind c1)).
  assert (N : forall j, nthZ m' j = if j =? e then ind c1
                                   else if (0 <=? j) && (j <? e) then - ind c1 else nthZ (mn c) j).
  { intros j. unfold m'. apply nthZ_carry. lia. }
  assert (Nlt : forall j, 0 <= j < e -> nthZ m' j = - ind c1).
  { intros j Hj. rewrite N. replace (j =? e) with false by eqb_f.
    replace ((0 <=? j) && (j <? e)) with true by andb_t. reflexivity. }
  assert (Ne : nthZ m' e = ind c1) by (rewrite N, Z.eqb_refl; reflexivity).
  assert (Ngt : forall j, e < j -> nthZ m' j = nthZ (mn c) j).
  { intros j Hj. rewrite N. replace (j =? e) with false by eqb_f.
    replace ((0 <=? j) && (j <? e)) with false by andb_f. reflexivity. }
  assert (Hze : forall j, depth c <= j -> nthZ (mn c) j = 0) by exact Hz.
  assert (Habove : Z.abs (nthZ (mn c) (e + 1)) <= Z.abs (nthZ (mn c) e)).
  { destruct (Z_lt_le_dec e (depth c)); [apply Hch; lia|]. rewrite (Hze (e + 1)) by lia. simpl. apply Z.abs_nonneg. }
  assert (Hfe1 : Z.abs (nthZ (mn c) (e + 1)) = Z.abs (nthZ (mn c) e)).
  { destruct (Z_lt_le_dec e (depth c)); [apply Hfree; [lia|exact Hfe]|].
    rewrite (Hze (e + 1)), (Hze e) by lia. reflexivity. }
  assert (Lm : zlen m' = zlen (mn c)) by (unfold m'; rewrite zlen_upd, zlen_fill_prefix; reflexivity).
  constructor; simpl; fold m'.
  - rewrite Lm. lia.
  - intros j Hj. rewrite Ngt by lia. apply Hz. lia.
  - intros j Hj. destruct (Z_lt_le_dec (j + 1) e).
    + rewrite !Nlt by lia. lia.
    + destruct (Z.eq_dec (j + 1) e) as [E1|E1].
      * rewrite <- E1 in Ne. rewrite Ne, Nlt by lia. lia.
      * destruct (Z.eq_dec j e) as [->|E2].
        -- rewrite Ne, Ngt by lia. lia.
        -- rewrite !Ngt by lia. apply Hch. lia.
  - destruct (Z.eq_dec e 0) as [->|E0]; [rewrite Ne; lia|rewrite Nlt by lia; lia].
  - exact Hk1.
  - intros j Hj Hnp. destruct (Z_lt_le_dec (j + 1) e).
    + rewrite !Nlt by lia. reflexivity.
    + destruct (Z.eq_dec (j + 1) e) as [E1|E1].
      * rewrite <- E1 in Ne. rewrite Ne, Nlt by lia. lia.
      * destruct (Z.eq_dec j e) as [->|E2].
        -- rewrite Ne in *. rewrite Ngt by lia. lia.
        -- rewrite !Ngt in * by lia. apply Hfree; [lia|exact Hnp].
  - intros j Hj. unfold run_at. simpl. fold m'. destruct (Z_lt_le_dec (j + 1) e).
    + rewrite !Nlt by lia. rewrite slice_empty. apply ssorted_nil.
    + destruct (Z.eq_dec (j + 1) e) as [E1|E1].
      * rewrite <- E1 in Ne. rewrite Ne, Nlt by lia.
        replace (Z.abs (- ind c1)) with (Z.abs (ind c1)) by lia. rewrite slice_empty. apply ssorted_nil.
      * destruct (Z.eq_dec j e) as [->|E2].
        -- rewrite Ne, Ngt by lia. rewrite Hfe1. replace (Z.abs (ind c1)) with (ind c1) by lia. exact Hs.
        -- rewrite !Ngt by lia.
           assert (Z.abs (nthZ (mn c) j) <= Z.abs (nthZ (mn c) e)).
           { apply (chain_le (mn c) e (depth c)); [intros q Hq; apply Hch; lia|lia]. }
           rewrite (slice_prefix_eq (buf c1) (buf c) _ _ (Z.abs (nthZ (mn c) e)));
             [apply (Hruns j); lia|apply Z.abs_nonneg|lia|exact Hpre].
Qed.

Lemma msd_ok c :
  stack_ok c -> ind c <= cap c -> cnt (mn c) (depth c) + 1 < 2 ^ (zlen (mn c) - 1) ->
  ssorted (slice (buf c) (Z.abs (nthZ (mn c) 0)) (ind c)) ->
  exists c',
    merge_sum_duplicates c = Ok c' /\ stack_ok c' /\
    cap c' = cap c /\ zlen (mn c') = zlen (mn c) /\ 0 <= ind c' <= ind c /\ Z.abs (nthZ (mn c') 0) = ind c' /\
    (forall k, sumby (live c') k = sumby (live c) k) /\
    cnt (mn c') (depth c') <= cnt (mn c) (depth c) + 1 /\
    (depth c' = depth c \/ (depth c' = depth c + 1 /\ 2 ^ depth c <= cnt (mn c) (depth c) + 1)) /\
    (forall e, 0 <= e <= depth c -> (forall j, 0 <= j < e -> nthZ (mn c) j > 0) -> nthZ (mn c) e <= 0 ->
               ssorted (slice (buf c') (Z.abs (nthZ (mn c) e)) (ind c'))).
Proof.
  intros SO Huc Hcnt Hnew. pose proof SO as [Hd Hz Hch Hi Hk Hfree Hruns].
  destruct (msd_loop_ok (Z.to_nat (depth c)) 0 c)
    as (c1 & nd & e & L1 & L2 & L3 & L4 & L5 & L6 & L7 & L8 & L9 & L10 & L11 & L12 & L13 & L14);
    auto; try lia.
  unfold merge_sum_duplicates. rewrite L1. simpl bind.
  (* the stopping level is the first non-positive entry: unique *)
  assert (Huniq : forall e', 0 <= e' <= depth c -> (forall j, 0 <= j < e' -> nthZ (mn c) j > 0) ->
                             nthZ (mn c) e' <= 0 -> nthZ (mn c) e <= 0 -> e' = e).
  { intros e' H1 H2 H3 H4. destruct (Z_lt_le_dec e' e); [specialize (L11 e' ltac:(lia)); lia|].
    destruct (Z_lt_le_dec e e'); [specialize (H2 e ltac:(lia)); lia|lia]. }
  destruct nd.
  - (* every level occupied: a new level *)
    destruct (L8 eq_refl) as [Ee Em]. subst e. rewrite Em, L3.
    assert (Hpos : forall j, 0 <= j < depth c -> nthZ (mn c) j > 0) by (intros; apply L11; lia).
    assert (Hc : cnt (mn c) (depth c) = 2 ^ depth c - 1) by (apply cnt_all_pos; [lia|exact Hpos]).
    assert (Hroom : depth c + 1 < zlen (mn c)).
    { assert (2 ^ depth c < 2 ^ (zlen (mn c) - 1)) by lia.
      apply Z.pow_lt_mono_r_iff in H; lia. }
    assert (Hz0 : nthZ (mn c) (depth c) = 0) by (apply Hz; lia).
    rewrite setZ_ok by (rewrite zlen_fill_prefix; lia). simpl bind.
    eexists. split; [reflexivity|].
    pose proof (carry_stack c c1 (depth c) (depth c + 1) SO) as CS.
    split; [apply CS; auto; try lia|].
    set (m' := upd (fill_prefix (mn c) (depth c) (- ind c1)) (Z.to_nat (depth c)) (ind c1)).
    assert (N : forall j, nthZ m' j = if j =? depth c then ind c1
                                     else if (0 <=? j) && (j <? depth c) then - ind c1 else nthZ (mn c) j).
    { intros j. unfold m'. apply nthZ_carry. lia. }
    simpl. split; [exact L2|]. split; [unfold m'; rewrite zlen_upd, zlen_fill_prefix; reflexivity|]. split; [lia|].
    split.
    { rewrite N. destruct (0 =? depth c) eqn:E0; [lia|].
      replace ((0 <=? 0) && (0 <? depth c)) with true
        by (symmetry; apply andb_true_iff; split; [apply Z.leb_le|apply Z.ltb_lt; apply Z.eqb_neq in E0]; lia).
      lia. }
    split; [exact L6|].
    split.
    { pose proof (cnt_newdepth (mn c) (depth c) (ind c1)) as QQ. fold m' in QQ. lia. }
    split; [right; split; [reflexivity|lia]|].
    intros e' H1 H2 H3. rewrite (Huniq e' H1 H2 H3) by lia. exact L13.
  - (* the carry stopped at the free level e *)
    destruct (L9 eq_refl) as (I1 & I3 & I5).
    exists c1. split; [reflexivity|].
    pose proof (carry_stack c c1 e (depth c) SO) as CS.
    assert (Ec1 : c1 = mkCoo (buf c1) (ind c1) (upd (fill_prefix (mn c) e (- ind c1)) (Z.to_nat e) (ind c1)) (depth c)).
    { destruct c1 as [b1 i1 m1 d1]. simpl in *. subst. reflexivity. }
    split; [rewrite Ec1; apply CS; auto; try lia|].
    assert (N : forall j, nthZ (mn c1) j = if j =? e then ind c1
                                          else if (0 <=? j) && (j <? e) then - ind c1 else nthZ (mn c) j).
    { intros j. rewrite I5. apply nthZ_carry. lia. }
    split; [exact L2|]. split; [exact L4|]. split; [lia|].
    split.
    { rewrite N. destruct (0 =? e) eqn:E0; [lia|].
      replace ((0 <=? 0) && (0 <? e)) with true
        by (symmetry; apply andb_true_iff; split; [apply Z.leb_le|apply Z.ltb_lt; apply Z.eqb_neq in E0]; lia).
      lia. }
    split; [exact L6|].
    split.
    { rewrite L3, I5. apply cnt_carry; try lia. intros j Hj. apply L11. lia. }
    split; [left; exact L3|].
    intros e' H1 H2 H3. rewrite (Huniq e' H1 H2 H3) by lia. exact L13.
Qed.

(* ------------------------------------------------------------------ coo_sum_duplicates *)
Definition op_post (c c' : coo) : Prop :=
  stack_ok c' /\
  cap c' = cap c /\ zlen (mn c') = zlen (mn c) /\ 0 <= ind c' <= ind c /\ Z.abs (nthZ (mn c') 0) = ind c' /\
  (forall k, sumby (live c') k = sumby (live c) k) /\
  cnt (mn c') (depth c') <= cnt (mn c) (depth c) + 1 /\
  (depth c' = depth c \/ (depth c' = depth c + 1 /\ 2 ^ depth c <= cnt (mn c) (depth c) + 1)).

Lemma csd_ok c :
  stack_ok c -> ind c < cap c -> cnt (mn c) (depth c) + 1 < 2 ^ (zlen (mn c) - 1) ->
  exists c', coo_sum_duplicates c = Ok c' /\ op_post c c'.
Proof.
  intros [Hd Hz Hch Hi Hk Hfree Hruns] Huc Hcnt.
  set (lo := Z.abs (nthZ (mn c) 0)).
  assert (Hlo0 : 0 <= lo) by apply Z.abs_nonneg.
  destruct (sd_phase c lo) as (cm & S1 & S2 & S3 & S4 & S5 & S6); try lia; try reflexivity.
  assert (Hseg : keys_nonneg (slice (buf c) lo (ind c))) by (apply live_slice_nonneg; [lia|exact Hk]).
  assert (LP : zlen (firstn (Z.to_nat lo) (buf c)) = lo) by (apply zlen_firstn; unfold cap in *; lia).
  assert (Hpre : firstn (Z.to_nat lo) (buf cm) = firstn (Z.to_nat lo) (buf c)).
  { rewrite <- (firstn_firstn_le (Z.to_nat lo) (Z.to_nat (ind cm)) (buf cm)) by lia.
    fold (live cm). rewrite S6. apply firstnZ_app. symmetry; exact LP. }
  assert (Hrun : slice (buf cm) lo (ind cm) = rlc (sort_by_key (slice (buf c) lo (ind c)))).
  { rewrite slice_skipn_firstn by lia. fold (live cm). rewrite S6. apply skipnZ_app. symmetry; exact LP. }
  assert (SO : stack_ok cm).
  { constructor; rewrite ?S2, ?S3; auto; try (fold lo; lia).
    - rewrite S6. apply keys_nonneg_app. split; [apply live_prefix_nonneg; [lia|exact Hk]|].
      apply keys_nonneg_rlc. eapply keys_nonneg_perm; [apply sort_perm|exact Hseg].
    - intros j Hj. unfold run_at. rewrite S2.
      assert (Z.abs (nthZ (mn c) j) <= lo) by (apply (chain_le (mn c) 0 (depth c)); [exact Hch|lia]).
      rewrite (slice_prefix_eq (buf cm) (buf c) _ _ lo); [apply Hruns; lia|apply Z.abs_nonneg|lia|exact Hpre]. }
  destruct (msd_ok cm SO) as (c' & M1 & M2 & M3 & M4 & M5 & M6 & M7 & M8 & M9 & _).
  { rewrite S4. lia. }
  { rewrite S2, S3. exact Hcnt. }
  { rewrite S2. fold lo. rewrite Hrun. apply rlc_sorted, sort_wsorted. }
  exists c'. split; [rewrite S1; exact M1|].
  rewrite S2, S3, S4 in *.
  split; [exact M2|]. split; [exact M3|]. split; [exact M4|]. split; [lia|]. split; [exact M6|].
  split; [|split; [exact M8|exact M9]].
  intros k. rewrite M7, S6, sumby_app, rlc_sumby.
  rewrite <- (sumby_perm _ _ k (sort_perm (slice (buf c) lo (ind c)))).
  unfold live. rewrite (firstn_slice (buf c) lo (ind c)) by lia. rewrite sumby_app. reflexivity.
Qed.

(* ------------------------------------------------------------------ merge_all_sum_duplicates *)
Definition gt0 (x : Z) : bool := x >? 0.
Definition absge (a b : Z) : Prop := Z.abs b <= Z.abs a.

Lemma getZ_Ok_nthZ s (l : list Z) j x : getZ s l j = Ok x -> nthZ l j = x.
Proof.
  unfold getZ, nthZ. destruct (j <? 0); [discriminate|].
  destruct (nth_error l (Z.to_nat j)) eqn:E; [|discriminate].
  intros H; inversion H; subst. apply nth_error_nth. exact E.
Qed.

Lemma positives_ok m X : forall i q, seg m i q X -> positives (length X) i m = Ok (filter gt0 X).
Proof.
  induction X as [|x t IH]; intros i q Hs; simpl; [reflexivity|].
  apply (seg_cons S_ma_min_i) in Hs. destruct Hs as [G Hs].
  rewrite G. simpl bind. rewrite (IH _ _ Hs). simpl bind. unfold gt0. reflexivity.
Qed.

Lemma npos_filter m X : forall i q, seg m i q X -> npos_range m i (length X) = zlen (filter gt0 X).
Proof.
  induction X as [|x t IH]; intros i q Hs; simpl npos_range; [reflexivity|].
  apply (seg_cons S_ma_min_i) in Hs. destruct Hs as [G Hs].
  apply getZ_Ok_nthZ in G. rewrite G, (IH _ _ Hs). simpl filter. unfold gt0 at 2.
  destruct (x >? 0); zl; lia.
Qed.

Lemma nthZ_firstn l d j : 0 <= j < d -> nthZ (firstn (Z.to_nat d) l) j = nthZ l j.
Proof.
  intros H. unfold nthZ. destruct (j <? 0); [reflexivity|].
  rewrite <- (firstn_skipn (Z.to_nat d) l) at 2.
  destruct (Z_lt_le_dec j (zlen (firstn (Z.to_nat d) l))).
  - rewrite app_nth1 by (unfold zlen in *; lia). reflexivity.
  - rewrite nth_overflow by (unfold zlen in *; lia).
    assert (length l <= Z.to_nat d)%nat.
    { unfold zlen in l0. rewrite firstn_length in l0. lia. }
    rewrite skipn_all2 by lia. rewrite app_nil_r. rewrite nth_overflow; [reflexivity|].
    rewrite firstn_length. unfold zlen in l0. rewrite firstn_length in l0. lia.
Qed.

Lemma nthZ_cons_S a t j : 0 <= j -> nthZ (a :: t) (j + 1) = nthZ t j.
Proof.
  intros H. change (a :: t) with ([a] ++ t). rewrite nthZ_app_r by (zl; lia). zl. f_equal. lia.
Qed.

Lemma adjacent_sorted (X : list Z) :
  (forall j, 0 <= j -> j + 1 < zlen X -> absge (nthZ X j) (nthZ X (j + 1))) -> StronglySorted absge X.
Proof.
  induction X as [|a t IH]; intros H; [constructor|].
  assert (Ht : StronglySorted absge t).
  { apply IH. intros j Hj0 Hj. specialize (H (j + 1) ltac:(lia) ltac:(zl; lia)).
    rewrite !nthZ_cons_S in H by lia. exact H. }
  constructor; [exact Ht|].
  destruct t as [|b t']; [constructor|].
  assert (Hab : absge a b).
  { specialize (H 0 ltac:(lia) ltac:(zl; pose proof (zlen_nonneg t'); lia)). exact H. }
  constructor; [exact Hab|].
  inversion Ht as [|? ? _ F]; subst. eapply Forall_impl; [|exact F].
  unfold absge in *. simpl. intros; lia.
Qed.

Lemma filter_sorted f (X : list Z) : StronglySorted absge X -> StronglySorted absge (filter f X).
Proof.
  induction 1 as [|a t Ht IH F]; simpl; [constructor|].
  destruct (f a); [|exact IH]. constructor; [exact IH|].
  rewrite Forall_forall in *. intros x Hx. apply F. apply filter_In in Hx. apply Hx.
Qed.

Lemma sorted_adjacent (X : list Z) : StronglySorted absge X ->
  forall j, 0 <= j -> j + 1 < zlen X -> absge (nthZ X j) (nthZ X (j + 1)).
Proof.
  induction 1 as [|a t Ht IH F]; intros j Hj0 Hj; [zl; lia|].
  destruct (Z.eq_dec j 0) as [->|Hne].
  - destruct t as [|b t']; [zl; lia|]. inversion F; subst. exact H1.
  - zl. specialize (IH (j - 1) ltac:(lia) ltac:(lia)).
    replace j with (j - 1 + 1) at 1 by lia. rewrite !nthZ_cons_S by lia.
    replace (j - 1 + 1) with j in IH by lia. exact IH.
Qed.

Lemma sorted_hd_bound (X : list Z) x : StronglySorted absge X -> In x X -> Z.abs x <= Z.abs (nthZ X 0).
Proof.
  intros H Hin. destruct X as [|a t]; [contradiction|]. inversion H as [|? ? _ F]; subst.
  destruct Hin as [<-|Hin]; [unfold nthZ; simpl; lia|].
  rewrite Forall_forall in F. apply F in Hin. unfold absge in Hin. unfold nthZ; simpl. exact Hin.
Qed.

Lemma nthZ_in (X : list Z) j : 0 <= j < zlen X -> In (nthZ X j) X.
Proof.
  intros H. unfold nthZ. destruct (j <? 0) eqn:E; [apply Z.ltb_lt in E; lia|].
  apply nth_In. unfold zlen in H. lia.
Qed.

Lemma filter_length_le' {A} (f : A -> bool) l : (length (filter f l) <= length l)%nat.
Proof. induction l as [|x l IH]; simpl; [lia|]. destruct (f x); simpl; lia. Qed.

(* list formulation of so_free / so_runs, used to get through merge_all's compaction *)
Definition start_of (X : list Z) (t : Z) : Z := match X with [] => Z.abs t | y :: _ => Z.abs y end.
Fixpoint runs_list (b : list entry) (X : list Z) (t : Z) : Prop :=
  match X with
  | [] => True
  | x :: X' => (x <= 0 -> Z.abs x = start_of X' t) /\ ssorted (slice b (start_of X' t) (Z.abs x)) /\ runs_list b X' t
  end.

Lemma start_of_seg m X i q t : seg m i q X -> nthZ m q = t -> start_of X t = Z.abs (nthZ m i).
Proof.
  intros Hs Ht. destruct X as [|y X']; simpl.
  - apply seg_nil_eq in Hs. subst. reflexivity.
  - apply (seg_cons S_ma_min_i) in Hs. destruct Hs as [G _]. apply getZ_Ok_nthZ in G. rewrite G. reflexivity.
Qed.

Lemma runs_list_of_pointwise b m t : forall X i q, seg m i q X -> nthZ m q = t ->
  (forall j, i <= j < q -> nthZ m j <= 0 -> Z.abs (nthZ m (j + 1)) = Z.abs (nthZ m j)) ->
  (forall j, i <= j < q -> ssorted (slice b (Z.abs (nthZ m (j + 1))) (Z.abs (nthZ m j)))) ->
  runs_list b X t.
Proof.
  induction X as [|x X' IH]; intros i q Hs Ht Hf Hr; simpl; [exact I|].
  pose proof Hs as Hs0. apply (seg_cons S_ma_min_i) in Hs. destruct Hs as [G Hs'].
  apply getZ_Ok_nthZ in G.
  assert (Hiq : i < q). { destruct Hs0 as (_ & H & _). zl. pose proof (zlen_nonneg X'). lia. }
  rewrite (start_of_seg m X' (i + 1) q t Hs' Ht). rewrite <- G.
  split; [intros Hx; symmetry; apply Hf; [lia|exact Hx]|].
  split; [apply Hr; lia|].
  apply (IH (i + 1) q Hs' Ht); intros j Hj; [apply Hf|apply Hr]; lia.
Qed.

Lemma pointwise_of_runs_list b m t : forall X i q, seg m i q X -> nthZ m q = t -> runs_list b X t ->
  forall j, i <= j < q ->
    (nthZ m j <= 0 -> Z.abs (nthZ m (j + 1)) = Z.abs (nthZ m j)) /\
    ssorted (slice b (Z.abs (nthZ m (j + 1))) (Z.abs (nthZ m j))).
Proof.
  induction X as [|x X' IH]; intros i q Hs Ht HR j Hj.
  - apply seg_nil_eq in Hs. lia.
  - apply (seg_cons S_ma_min_i) in Hs. destruct Hs as [G Hs'].
    apply getZ_Ok_nthZ in G. simpl in HR. destruct HR as (R1 & R2 & R3).
    rewrite (start_of_seg m X' (i + 1) q t Hs' Ht) in R1, R2.
    destruct (Z.eq_dec j i) as [->|Hne].
    + rewrite G. split; [intros Hx; symmetry; apply R1, Hx|exact R2].
    + apply (IH (i + 1) q Hs' Ht R3). lia.
Qed.

Lemma start_of_zeros k : start_of (repeat 0 k) 0 = 0.
Proof. destruct k; reflexivity. Qed.

Lemma runs_list_zeros b k : runs_list b (repeat 0 k) 0.
Proof.
  induction k as [|k IH]; simpl; [exact I|]. rewrite start_of_zeros. simpl.
  split; [reflexivity|]. split; [rewrite slice_empty; apply ssorted_nil|exact IH].
Qed.

Lemma start_filter b X k : runs_list b X 0 -> start_of (filter gt0 X ++ repeat 0 k) 0 = start_of X 0.
Proof.
  induction X as [|x X' IH]; intros HR; simpl.
  - apply start_of_zeros.
  - simpl in HR. destruct HR as (R1 & _ & R3). unfold gt0 at 1. destruct (x >? 0) eqn:E.
    + reflexivity.
    + rewrite Z.gtb_ltb in E. apply Z.ltb_ge in E. rewrite (IH R3). symmetry. apply R1, E.
Qed.

Lemma runs_filter b X k : runs_list b X 0 -> runs_list b (filter gt0 X ++ repeat 0 k) 0.
Proof.
  induction X as [|x X' IH]; intros HR; simpl.
  - apply runs_list_zeros.
  - simpl in HR. destruct HR as (R1 & R2 & R3). unfold gt0 at 1. destruct (x >? 0) eqn:E.
    + simpl. rewrite (start_filter b X' k R3). apply Z.gtb_lt in E.
      split; [intros; lia|]. split; [exact R2|apply IH, R3].
    + apply IH, R3.
Qed.

Lemma slice0_firstn {A} (b : list A) up : slice b 0 up = firstn (Z.to_nat up) b.
Proof. unfold slice. rewrite Z.sub_0_r. reflexivity. Qed.

Lemma ma_ok c :
  stack_ok c -> ind c <= cap c -> cnt (mn c) (depth c) + 1 < 2 ^ (zlen (mn c) - 1) ->
  Z.abs (nthZ (mn c) 0) = ind c ->
  exists c', merge_all_sum_duplicates c = Ok c' /\ op_post c c' /\ ssorted (live c').
Proof.
  intros [Hd Hz Hch Hi Hk Hfree Hruns] Huc Hcnt Htail.
  set (d := depth c) in *. set (m := mn c) in *.
  set (X := slice m 0 d).
  assert (SX : seg m 0 d X) by (apply seg_slice; lia).
  assert (LX : zlen X = d) by (destruct SX as (_ & H & _); lia).
  assert (EX : X = firstn (Z.to_nat d) m) by (unfold X, slice; rewrite Z.sub_0_r; reflexivity).
  set (pos := filter gt0 X).
  assert (Lp : 0 <= zlen pos <= d).
  { split; [apply zlen_nonneg|]. rewrite <- LX. unfold pos, zlen.
    pose proof (filter_length_le' gt0 X). lia. }
  unfold merge_all_sum_duplicates. fold d. fold m.
  replace (Z.to_nat d) with (length X) by (unfold zlen in LX; lia).
  rewrite (positives_ok m X 0 d SX). simpl bind. fold pos.
  set (new_min := pos ++ repeat 0 (length X - length pos)).
  assert (Ln : zlen new_min = d).
  { unfold new_min. zl. unfold zlen in *. lia. }
  destruct (assign_slice_ok S_ma_assign m 0 d new_min) as (m2 & E1 & E2 & E3); [lia|lia|lia|].
  rewrite E1. simpl bind.
  simpl firstn in E2. rewrite app_nil_l in E2.
  (* pointwise description of the compacted stack *)
  assert (N1 : forall j, 0 <= j < zlen pos -> nthZ m2 j = nthZ pos j).
  { intros j Hj. rewrite E2. unfold new_min. rewrite <- app_assoc. apply nthZ_app_l. lia. }
  assert (N2 : forall j, zlen pos <= j < d -> nthZ m2 j = 0).
  { intros j Hj. rewrite E2. unfold new_min. rewrite <- app_assoc. rewrite nthZ_app_r by lia.
    rewrite nthZ_app_l by (zl; unfold zlen in *; lia). apply nthZ_repeat. unfold zlen in *. lia. }
  assert (N3 : forall j, d <= j -> nthZ m2 j = 0).
  { intros j Hj. rewrite E2. rewrite nthZ_app_r by lia. rewrite Ln.
    destruct (Z_lt_le_dec j (zlen m)).
    - unfold nthZ. destruct (j - d <? 0) eqn:E; [apply Z.ltb_lt in E; lia|].
      rewrite nth_skipn'. replace (Z.to_nat d + Z.to_nat (j - d))%nat with (Z.to_nat j) by lia.
      specialize (Hz j Hj). unfold nthZ in Hz. destruct (j <? 0) eqn:E'; [apply Z.ltb_lt in E'; lia|]. exact Hz.
    - apply nthZ_beyond. rewrite zlen_skipn by lia. lia. }
  assert (PX : forall x, In x pos -> x > 0 /\ In x X).
  { intros x Hx. apply filter_In in Hx. destruct Hx as [H1 H2]. unfold gt0 in H2. apply Z.gtb_lt in H2. split; [lia|exact H1]. }
  assert (SXs : StronglySorted absge X).
  { apply adjacent_sorted. intros j Hj0 Hj. rewrite EX, !nthZ_firstn by lia. apply Hch. lia. }
  assert (Sp : StronglySorted absge pos) by (apply filter_sorted, SXs).
  (* runs and free levels of the compacted stack, through the list formulation *)
  assert (RL : runs_list (buf c) X 0).
  { apply (runs_list_of_pointwise (buf c) m 0 X 0 d SX); [apply Hz; lia| |].
    - intros j Hj. apply Hfree. lia.
    - intros j Hj. apply (Hruns j). lia. }
  assert (RL2 : runs_list (buf c) new_min 0) by (apply runs_filter, RL).
  assert (S2 : seg m2 0 d new_min).
  { split; [lia|]. split; [lia|]. rewrite slice0_firstn, E2. apply firstnZ_app. symmetry; exact Ln. }
  pose proof (pointwise_of_runs_list (buf c) m2 0 new_min 0 d S2 (N3 d ltac:(lia)) RL2) as PW.
  assert (H0 : Z.abs (nthZ m2 0) = Z.abs (nthZ m 0)).
  { rewrite <- (start_of_seg m2 new_min 0 d 0 S2 (N3 d ltac:(lia))).
    rewrite <- (start_of_seg m X 0 d 0 SX (Hz d ltac:(lia))). apply (start_filter (buf c)), RL. }
  assert (SO : stack_ok (set_mn c m2)).
  { constructor; unfold set_mn; simpl; fold d.
    - lia.
    - intros j Hj. apply N3, Hj.
    - intros j Hj.
      destruct (Z_lt_le_dec (j + 1) (zlen pos)).
      + rewrite !N1 by lia. apply (sorted_adjacent pos Sp); lia.
      + assert (nthZ m2 (j + 1) = 0) as ->.
        { destruct (Z_lt_le_dec (j + 1) d); [apply N2; lia|apply N3; lia]. }
        simpl. apply Z.abs_nonneg.
    - rewrite H0. fold m in Hi. exact Hi.
    - exact Hk.
    - intros j Hj. apply (PW j). lia.
    - intros j Hj. unfold run_at; simpl. apply (PW j). lia. }
  assert (C2 : cnt m2 d <= cnt m d).
  { unfold cnt.
    replace (Z.to_nat d) with (Z.to_nat (zlen pos) + Z.to_nat (d - zlen pos))%nat at 1 by lia.
    rewrite cnt_range_split. rewrite Z.add_0_l, Z2Nat.id by lia.
    rewrite (cnt_range_pos m2) by (try lia; intros j Hj; rewrite N1 by lia;
                                   apply PX, nthZ_in; lia).
    rewrite (cnt_range_nonpos m2) by (intros j Hj; rewrite N2 by lia; lia).
    pose proof (cnt_range_npos m (Z.to_nat d) 0 ltac:(lia)) as QQ.
    replace (Z.to_nat d) with (length X) in QQ at 1 by (unfold zlen in LX; lia).
    rewrite (npos_filter m X 0 d SX) in QQ. fold pos in QQ.
    rewrite Z2Nat.id by lia. replace (0 + zlen pos) with (zlen pos) by lia.
    change (2 ^ 0) with 1 in *. lia. }
  destruct (msd_ok (set_mn c m2) SO) as (c' & M1 & M2 & M3 & M4 & M5 & M6 & M7 & M8 & M9 & M10).
  { exact Huc. }
  { unfold set_mn; simpl. fold d. rewrite E3. fold m in Hcnt. lia. }
  { unfold set_mn; simpl. rewrite H0. fold m in Htail. rewrite Htail, slice_empty. apply ssorted_nil. }
  exists c'. split; [exact M1|].
  assert (Hsorted : ssorted (live c')).
  { specialize (M10 (zlen pos)). unfold set_mn in M10; simpl in M10. fold d in M10.
    assert (Hp0 : nthZ m2 (zlen pos) = 0).
    { destruct (Z_lt_le_dec (zlen pos) d); [apply N2; lia|apply N3; lia]. }
    rewrite Hp0 in M10. simpl in M10. rewrite slice0_firstn in M10. apply M10; try lia.
    intros j Hj. rewrite N1 by lia. apply PX, nthZ_in; lia. }
  split; [|exact Hsorted].
  unfold set_mn in *; simpl in *. unfold d, m in *.
  split; [exact M2|]. split; [exact M3|]. split; [rewrite M4; exact E3|]. split; [exact M5|].
  split; [exact M6|]. split; [exact M7|]. split; [lia|].
  destruct M9 as [M9|[M9 M9']]; [left; exact M9|right; split; [exact M9|lia]].
Qed.

(* ------------------------------------------------------------------ the invariant with its level-counter budget *)
(* G is a ghost bound on the level counter: every flush / merge_all adds at most 1 *)
Definition Inv (c : coo) (G : Z) : Prop :=
  stack_ok c /\ cnt (mn c) (depth c) <= G /\ (depth c = 0 \/ 2 ^ (depth c - 1) <= G).

Lemma Inv_mono c G G' : G <= G' -> Inv c G -> Inv c G'.
Proof. intros H (S & C & D). split; [exact S|]. split; [lia|]. destruct D; [left; assumption|right; lia]. Qed.

Lemma Inv_room c G : Inv c G -> G + 1 < 2 ^ (zlen (mn c) - 1) -> cnt (mn c) (depth c) + 1 < 2 ^ (zlen (mn c) - 1).
Proof. intros (_ & C & _) H. lia. Qed.

Lemma op_step c c' G : Inv c G -> op_post c c' -> Inv c' (G + 1).
Proof.
  intros (S & C & D) (S' & _ & _ & _ & _ & _ & C' & D').
  split; [exact S'|]. split; [lia|].
  destruct D' as [E|[E1 E2]].
  - rewrite E. destruct D; [left; assumption|right; lia].
  - right. rewrite E1. replace (depth c + 1 - 1) with (depth c) by lia. lia.
Qed.

(* ------------------------------------------------------------------ coo_increase_mem *)
Lemma nthZ_extend0 l n j : nthZ (extend l 0 n) j = nthZ l j.
Proof.
  unfold extend. destruct (Z_lt_le_dec j 0); [rewrite !nthZ_neg by lia; reflexivity|].
  destruct (Z_lt_le_dec j (zlen l)); [apply nthZ_app_l; lia|].
  rewrite nthZ_app_r by lia. rewrite (nthZ_beyond l) by lia.
  destruct (Z_lt_le_dec (j - zlen l) (Z.of_nat (Z.to_nat (n - zlen l)))).
  - apply nthZ_repeat. lia.
  - apply nthZ_beyond. zl. lia.
Qed.

Lemma zlen_extend {A} (l : list A) z n : zlen (extend l z n) = Z.max (zlen l) n.
Proof. unfold extend. zl. pose proof (zlen_nonneg l). lia. Qed.

Lemma round_half_even_ge a : 0 <= a -> a / 2 <= round_half_even_div2 a.
Proof.
  intros H. unfold round_half_even_div2.
  destruct (a mod 2 =? 0); [lia|]. destruct ((a / 2) mod 2 =? 0); lia.
Qed.

Lemma grow_inv limit c G : Inv c G -> ind c <= cap c ->
  Inv (coo_increase_mem limit c) G /\
  ind (coo_increase_mem limit c) = ind c /\
  cap (coo_increase_mem limit c) = Z.max (cap c) (grow_size limit (cap c)) /\
  zlen (mn c) <= zlen (mn (coo_increase_mem limit c)) /\
  live (coo_increase_mem limit c) = live c.
Proof.
  intros ([Hd Hz Hch Hi Hk Hfree Hruns] & C & D) Hic.
  assert (E : forall j, nthZ (mn (coo_increase_mem limit c)) j = nthZ (mn c) j)
    by (intros; apply nthZ_extend0).
  assert (L : live (coo_increase_mem limit c) = live c).
  { unfold live, coo_increase_mem, extend; simpl. rewrite firstn_app.
    replace (Z.to_nat (ind c) - length (buf c))%nat with 0%nat by (unfold cap, zlen in Hic; lia).
    simpl. apply app_nil_r. }
  assert (Pre : firstn (Z.to_nat (cap c)) (buf (coo_increase_mem limit c)) = firstn (Z.to_nat (cap c)) (buf c)).
  { unfold coo_increase_mem, extend; simpl. unfold cap, zlen. rewrite Nat2Z.id.
    rewrite firstn_app, Nat.sub_diag. simpl. rewrite app_nil_r. reflexivity. }
  split; [split; [constructor|]|].
  - unfold coo_increase_mem; simpl. rewrite zlen_extend. lia.
  - intros j Hj. rewrite E. apply Hz. exact Hj.
  - intros j Hj. rewrite !E. apply Hch. exact Hj.
  - rewrite E. exact Hi.
  - rewrite L. exact Hk.
  - intros j Hj. rewrite !E. apply Hfree. exact Hj.
  - intros j Hj. unfold run_at. rewrite !E.
    assert (Z.abs (nthZ (mn c) j) <= Z.abs (nthZ (mn c) 0)).
    { apply (chain_le (mn c) 0 (depth c)); [exact Hch|simpl in Hj; lia]. }
    rewrite (slice_prefix_eq _ (buf c) _ _ (cap c)); [apply Hruns; exact Hj|apply Z.abs_nonneg|lia|exact Pre].
  - split; [|exact D]. unfold cnt in *. simpl depth.
    rewrite (cnt_range_ext _ (mn c)); [exact C|]. intros; apply E.
  - split; [reflexivity|]. split; [unfold cap, coo_increase_mem; simpl; apply zlen_extend|].
    split; [unfold coo_increase_mem; simpl; rewrite zlen_extend; lia|exact L].
Qed.

(* ------------------------------------------------------------------ flush_tail (the body of both ifs of coo_append) *)
Lemma setZ_okA {A} s (l : list A) i v : 0 <= i < zlen l -> setZ s l i v = Ok (upd l (Z.to_nat i) v).
Proof.
  intros H. unfold setZ. replace ((0 <=? i) && (i <? zlen l)) with true; [reflexivity|].
  symmetry. apply andb_true_iff. split; [apply Z.leb_le|apply Z.ltb_lt]; lia.
Qed.

Lemma pow2_mono a b : 0 <= a <= b -> 2 ^ a <= 2 ^ b.
Proof. intros. apply Z.pow_le_mono_r; lia. Qed.

Lemma flush_tail_ok limit c G :
  1 <= limit -> Inv c G -> ind c <= cap c - 1 -> 20 <= cap c -> G + 2 < 2 ^ (zlen (mn c) - 1) ->
  exists c',
    flush_tail limit c = Ok c' /\ Inv c' (G + 2) /\ ind c' <= cap c' - 2 /\ 20 <= cap c' /\
    zlen (mn c) <= zlen (mn c') /\ (forall k, sumby (live c') k = sumby (live c) k).
Proof.
  intros Hl HI Hic Hcap HG.
  destruct (csd_ok c) as (c1 & E1 & P1); [apply HI|lia|apply (Inv_room c G HI); lia|].
  pose proof (op_step c c1 G HI P1) as I1.
  destruct P1 as (S1 & Q1 & Q2 & Q3 & Q4 & Q5 & _).
  unfold flush_tail. rewrite E1. cbn [bind].
  assert (Hm1 : 1 <= zlen (mn c1)) by (destruct S1 as [[? ?] _ _ _ _]; lia).
  rewrite (getZ_nthZ _ (mn c1) 0) by lia. cbn [bind]. rewrite Q4, Q1.
  destruct (cap c - ind c1 <=? limit) eqn:T.
  - destruct (ma_ok c1) as (c2 & E2 & P2 & _); [exact S1|lia|apply (Inv_room c1 (G + 1) I1); rewrite Q2; lia|exact Q4|].
    pose proof (op_step c1 c2 (G + 1) I1 P2) as I2. replace (G + 1 + 1) with (G + 2) in I2 by lia.
    destruct P2 as (S2 & R1 & R2 & R3 & R4 & R5 & _).
    rewrite E2. cbn [bind].
    destruct (20 * ind c2 >=? 19 * cap c2) eqn:T2.
    + destruct (grow_inv limit c2 (G + 2) I2) as (I3 & G1 & G2 & G3 & G4); [lia|].
      eexists. split; [reflexivity|]. split; [exact I3|].
      assert (Hgs : cap c + 2 <= grow_size limit (cap c2)).
      { unfold grow_size. rewrite R1, Q1. pose proof (round_half_even_ge (3 * cap c) ltac:(lia)).
        assert (cap c + 2 <= 3 * cap c / 2) by (apply Z.div_le_lower_bound; lia). lia. }
      rewrite G1, G2, G4. split; [lia|]. split; [lia|]. split; [lia|].
      intros k. rewrite R5, Q5. reflexivity.
    + eexists. split; [reflexivity|]. split; [exact I2|].
      rewrite Z.geb_leb in T2. apply Z.leb_gt in T2.
      split; [lia|]. split; [lia|]. split; [lia|]. intros k. rewrite R5, Q5. reflexivity.
  - apply Z.leb_gt in T. eexists. split; [reflexivity|].
    split; [apply (Inv_mono c1 (G + 1)); [lia|exact I1]|].
    split; [lia|]. split; [lia|]. split; [lia|]. exact Q5.
Qed.

(* ------------------------------------------------------------------ coo_append *)
Lemma live_append c ev : 0 <= ind c < cap c ->
  firstn (Z.to_nat (ind c + 1)) (upd (buf c) (Z.to_nat (ind c)) ev) = live c ++ [ev].
Proof.
  intros H. unfold cap in H. destruct (split_at (buf c) (ind c) H) as [x Hx].
  unfold live.
  assert (LP : zlen (firstn (Z.to_nat (ind c)) (buf c)) = ind c) by (apply zlen_firstn; lia).
  remember (firstn (Z.to_nat (ind c)) (buf c)) as P. remember (skipn (S (Z.to_nat (ind c))) (buf c)) as T.
  clear HeqP HeqT. rewrite Hx.
  replace (Z.to_nat (ind c)) with (length P) by (unfold zlen in LP; lia).
  rewrite upd_mid. replace (P ++ ev :: T) with ((P ++ [ev]) ++ T) by (rewrite <- app_assoc; reflexivity).
  apply firstnZ_app. zl. lia.
Qed.

Lemma coo_append_ok limit c G ev :
  1 <= limit -> Inv c G -> ind c <= cap c - 2 -> 20 <= cap c -> (0 <= e_key ev /\ Q (rck ev)) ->
  G + 2 < 2 ^ (zlen (mn c) - 1) ->
  exists c',
    coo_append limit c ev = Ok c' /\ Inv c' (G + 2) /\ ind c' <= cap c' - 2 /\ 20 <= cap c' /\
    zlen (mn c) <= zlen (mn c') /\ (forall k, sumby (live c') k = sumby (live c) k + sumby [ev] k).
Proof.
  intros Hl HI Hic Hcap Hev HG.
  destruct HI as ([Hd Hz Hch Hi Hk Hfree Hruns] & C & D).
  pose proof (Z.abs_nonneg (nthZ (mn c) 0)) as Habs.
  unfold coo_append. rewrite setZ_okA by (unfold cap in *; lia). cbn [bind].
  set (c1 := {| buf := upd (buf c) (Z.to_nat (ind c)) ev; ind := ind c + 1; mn := mn c; depth := depth c |}).
  assert (L1 : live c1 = live c ++ [ev]) by (apply live_append; lia).
  assert (I1 : Inv c1 G).
  { split; [constructor; simpl; auto; try lia|split; [exact C|exact D]].
    - rewrite L1. apply keys_nonneg_app. split; [exact Hk|]. constructor; [exact Hev|constructor].
    - intros j Hj. unfold run_at; simpl.
      assert (Z.abs (nthZ (mn c) j) <= Z.abs (nthZ (mn c) 0)) by (apply (chain_le (mn c) 0 (depth c)); [exact Hch|lia]).
      rewrite (slice_prefix_eq _ (buf c) _ _ (ind c)); [apply Hruns; exact Hj|apply Z.abs_nonneg|lia|apply firstn_upd]. }
  assert (K1 : cap c1 = cap c) by (unfold cap, c1; simpl; apply zlen_upd).
  assert (S1 : forall k, sumby (live c1) k = sumby (live c) k + sumby [ev] k)
    by (intros k; rewrite L1; apply sumby_app).
  rewrite (getZ_nthZ _ (mn c1) 0) by (simpl; lia). cbn [bind].
  destruct (ind c1 - Z.abs (nthZ (mn c1) 0) >=? limit).
  - destruct (flush_tail_ok limit c1 G) as (c2 & E2 & I2 & J2 & C2 & M2 & U2); auto; try (rewrite ?K1; simpl; lia).
    rewrite E2. cbn [bind].
    replace (ind c2 =? cap c2 - 1) with false by (symmetry; apply Z.eqb_neq; lia).
    exists c2. split; [reflexivity|]. split; [exact I2|]. split; [exact J2|]. split; [exact C2|].
    split; [exact M2|]. intros k. rewrite U2. apply S1.
  - cbn [bind]. destruct (ind c1 =? cap c1 - 1) eqn:T.
    + destruct (flush_tail_ok limit c1 G) as (c2 & E2 & I2 & J2 & C2 & M2 & U2); auto; try (rewrite ?K1; simpl; lia).
      exists c2. split; [exact E2|]. split; [exact I2|]. split; [exact J2|]. split; [exact C2|].
      split; [exact M2|]. intros k. rewrite U2. apply S1.
    + apply Z.eqb_neq in T. exists c1. split; [reflexivity|].
      split; [apply (Inv_mono c1 G); [lia|exact I1]|].
      rewrite K1 in *. simpl ind in *. split; [lia|]. split; [lia|]. split; [simpl; lia|exact S1].
Qed.

(* ------------------------------------------------------------------ the event list *)
Lemma appends_ok limit : forall evs c G,
  1 <= limit -> Inv c G -> ind c <= cap c - 2 -> 20 <= cap c -> keys_nonneg evs ->
  G + 2 * zlen evs < 2 ^ (zlen (mn c) - 1) ->
  exists c',
    appends limit c evs = Ok c' /\ Inv c' (G + 2 * zlen evs) /\ ind c' <= cap c' - 2 /\ 20 <= cap c' /\
    zlen (mn c) <= zlen (mn c') /\ (forall k, sumby (live c') k = sumby (live c) k + sumby evs k).
Proof.
  induction evs as [|ev t IH]; intros c G Hl HI Hic Hcap Hk HG.
  - exists c. replace (G + 2 * zlen (@nil entry)) with G by (zl; lia).
    split; [reflexivity|]. split; [exact HI|]. split; [exact Hic|]. split; [exact Hcap|]. split; [lia|].
    intros k. simpl. lia.
  - zl. inversion Hk as [|? ? Hev Ht]; subst. pose proof (zlen_nonneg t) as Lt.
    assert (Hz : 1 <= zlen (mn c)) by (destruct HI as ([[? ?] _ _ _ _] & _); lia).
    destruct (coo_append_ok limit c G ev) as (c1 & E1 & I1 & J1 & C1 & M1 & U1); auto; try lia.
    simpl appends. rewrite E1. cbn [bind].
    destruct (IH c1 (G + 2)) as (c' & E' & I' & J' & C' & M' & U'); auto.
    { pose proof (pow2_mono (zlen (mn c) - 1) (zlen (mn c1) - 1) ltac:(lia)). lia. }
    exists c'. split; [exact E'|].
    replace (G + 2 * (1 + zlen t)) with (G + 2 + 2 * zlen t) by lia.
    split; [exact I'|]. split; [exact J'|]. split; [exact C'|]. split; [lia|].
    intros k. rewrite U', U1. simpl. lia.
Qed.

Lemma nthZ_repeat0 n j : nthZ (repeat 0 n) j = 0.
Proof.
  destruct (Z_lt_le_dec j 0); [apply nthZ_neg; lia|].
  destruct (Z_lt_le_dec j (Z.of_nat n)); [apply nthZ_repeat; lia|apply nthZ_beyond; zl; lia].
Qed.

Lemma init_inv n mlen : 0 <= n -> 1 <= mlen -> Inv (init n mlen) 0.
Proof.
  intros Hn Hm. split; [constructor; simpl|split; [reflexivity|left; reflexivity]].
  - zl. lia.
  - intros j _. apply nthZ_repeat0.
  - intros j Hj. lia.
  - rewrite nthZ_repeat0. simpl. lia.
  - constructor.
  - intros j Hj. lia.
  - intros j Hj. lia.
Qed.

Lemma finish_ok c G :
  Inv c G -> ind c <= cap c - 1 -> G + 2 < 2 ^ (zlen (mn c) - 1) ->
  exists c', finish c = Ok c' /\ stack_ok c' /\ (forall k, sumby (live c') k = sumby (live c) k) /\ ssorted (live c').
Proof.
  intros HI Hic HG.
  destruct (csd_ok c) as (c1 & E1 & P1); [apply HI|lia|apply (Inv_room c G HI); lia|].
  pose proof (op_step c c1 G HI P1) as I1.
  destruct P1 as (S1 & Q1 & Q2 & Q3 & Q4 & Q5 & _).
  destruct (ma_ok c1) as (c2 & E2 & P2 & Hs); [exact S1|lia|apply (Inv_room c1 (G + 1) I1); rewrite Q2; lia|exact Q4|].
  destruct P2 as (S2 & R1 & R2 & R3 & R4 & R5 & _).
  exists c2. unfold finish. rewrite E1. cbn [bind]. split; [exact E2|]. split; [exact S2|].
  split; [|exact Hs]. intros k. rewrite R5, Q5. reflexivity.
Qed.

(* no fault, exact sum by key and strictly increasing live keys, for every threshold >= 1, every capacity >= 20 and
   every event list that the min stack can count *)
Theorem run_total limit n mlen evs :
  1 <= limit -> 20 <= n -> keys_nonneg evs -> 2 * zlen evs + 2 < 2 ^ (mlen - 1) ->
  exists s, run limit n mlen evs = Ok s /\ (forall k, denote s k = sumby evs k) /\
            StronglySorted Z.lt (map e_key (live s)) /\ keys_nonneg (live s).
Proof.
  intros Hl Hn Hk HG.
  assert (Hm : 1 <= mlen).
  { destruct (Z_lt_le_dec mlen 1); [|lia]. rewrite Z.pow_neg_r in HG by lia. pose proof (zlen_nonneg evs). lia. }
  pose proof (init_inv n mlen ltac:(lia) Hm) as I0.
  assert (Z0 : zlen (mn (init n mlen)) = mlen) by (simpl; zl; lia).
  assert (C0 : cap (init n mlen) = n) by (unfold cap; simpl; zl; lia).
  destruct (appends_ok limit evs (init n mlen) 0) as (c & E & I & J & C & M & U); auto;
    try (rewrite ?C0, ?Z0; simpl ind; lia).
  destruct (finish_ok c (0 + 2 * zlen evs)) as (s & Ef & Sf & Uf & Ss); [exact I|lia| |].
  { pose proof (pow2_mono (mlen - 1) (zlen (mn c) - 1) ltac:(lia)). lia. }
  exists s. unfold run. rewrite E. cbn [bind]. split; [exact Ef|]. split; [|split; [exact Ss|apply Sf]].
  intros k. unfold denote. rewrite Uf, U. simpl. lia.
Qed.

End WithQ.

(* ------------------------------------------------------------------ matrix cells *)
(* the drivers' key: key = col + array_mul * row with 0 <= col < array_mul *)
Definition wf_ev (mul : Z) (t : Z * Z * Z) : Prop :=
  let '(r, c, k) := t in 0 <= c < mul /\ k = c + mul * r.

Lemma cell_sumby mul l r c : 0 <= c < mul ->
  Forall (fun e => wf_ev mul (rck e)) l -> cell l r c = sumby l (c + mul * r).
Proof.
  intros Hc. induction 1 as [|e t He Ht IH]; simpl; [reflexivity|]. rewrite IH. f_equal.
  destruct e as [[[er ec] ev] ek]. simpl in *. destruct He as [H1 H2]. subst ek.
  destruct (Z.eq_dec er r) as [->|Hr].
  - rewrite Z.eqb_refl. simpl. destruct (Z.eq_dec ec c) as [->|Hcc].
    + rewrite !Z.eqb_refl. reflexivity.
    + replace (ec =? c) with false by (symmetry; apply Z.eqb_neq; exact Hcc).
      replace (ec + mul * r =? c + mul * r) with false by (symmetry; apply Z.eqb_neq; lia). reflexivity.
  - replace (er =? r) with false by (symmetry; apply Z.eqb_neq; exact Hr). simpl.
    replace (ec + mul * er =? c + mul * r) with false; [reflexivity|].
    symmetry. apply Z.eqb_neq. intros E. apply Hr. nia.
Qed.

Theorem run_cells limit n mlen mul evs :
  1 <= limit -> 20 <= n -> 2 * zlen evs + 2 < 2 ^ (mlen - 1) ->
  Forall (fun e => 0 <= e_key e /\ wf_ev mul (rck e)) evs ->
  exists s, run limit n mlen evs = Ok s /\
            (forall r c, 0 <= c < mul -> cell (live s) r c = cell evs r c) /\
            StronglySorted Z.lt (map e_key (live s)).
Proof.
  intros Hl Hn HG Hev.
  destruct (run_total (wf_ev mul) limit n mlen evs Hl Hn Hev HG) as (s & E & D & S & K).
  exists s. split; [exact E|]. split; [|exact S].
  intros r c Hc. rewrite (cell_sumby mul (live s) r c Hc), (cell_sumby mul evs r c Hc).
  - apply D.
  - eapply Forall_impl; [|exact Hev]. simpl. intros e He. apply He.
  - eapply Forall_impl; [|exact K]. simpl. intros e He. apply He.
Qed.

(* ------------------------------------------------------------------ end to end: chunks, each with its own accumulator *)
(* the matrix a chunk's accumulator hands back (0 if it faulted) *)
Definition acc_matrix (limit n mlen : Z) (evs : list entry) (k : Z) : Z :=
  match run limit n mlen evs with Ok s => denote s k | OOB _ => 0 end.

Lemma slice_parts {A} (l : list A) a b : exists pre post, l = pre ++ slice l a b ++ post.
Proof.
  unfold slice. exists (firstn (Z.to_nat a) l), (skipn (Z.to_nat (b - a)) (skipn (Z.to_nat a) l)).
  rewrite firstn_skipn, firstn_skipn. reflexivity.
Qed.

Lemma events_of_slice_bounds doc (f : doc -> list entry) docs ch :
  zlen (events_of doc f (chunk_docs docs ch)) <= zlen (events_of doc f docs) /\
  incl (events_of doc f (chunk_docs docs ch)) (events_of doc f docs).
Proof.
  unfold chunk_docs. destruct (slice_parts docs (fst ch) (snd ch)) as (pre & post & E).
  rewrite E at 2 4. rewrite !events_of_app. split.
  - zl. pose proof (zlen_nonneg (events_of doc f pre)). pose proof (zlen_nonneg (events_of doc f post)). lia.
  - intros x Hx. apply in_or_app. right. apply in_or_app. left. exact Hx.
Qed.

Theorem end_to_end doc (f : doc -> list entry) docs sizes n_threads limit (capf mlenf : Z * Z -> Z) k :
  length sizes = length docs -> 1 <= limit -> (forall ch, 20 <= capf ch) ->
  Forall (fun e => 0 <= e_key e) (events_of doc f docs) ->
  (forall ch, 2 * zlen (events_of doc f docs) + 2 < 2 ^ (mlenf ch - 1)) ->
  fold_right Z.add 0
    (map (fun ch => acc_matrix limit (capf ch) (mlenf ch) (events_of doc f (chunk_docs docs ch)) k)
         (chunk_boundaries sizes n_threads))
  = sumby (events_of doc f docs) k.
Proof.
  intros Hlen Hl Hcap Hk Hm.
  rewrite <- (chunked_matrix_total doc f docs sizes n_threads k Hlen). unfold chunked_matrix.
  f_equal. apply map_ext. intros ch.
  destruct (events_of_slice_bounds doc f docs ch) as [B1 B2].
  destruct (run_total (fun _ => True) limit (capf ch) (mlenf ch) (events_of doc f (chunk_docs docs ch)))
    as (s & E & D & _); auto.
  - unfold keys_nonneg. rewrite Forall_forall in *. intros x Hx. split; [apply Hk, B2, Hx|exact I].
  - specialize (Hm ch). lia.
  - unfold acc_matrix. rewrite E. apply D.
Qed.
