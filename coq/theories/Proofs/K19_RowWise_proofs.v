(* Proofs about Model/K19_RowWise.v *)
From Coq Require Import ZArith List Arith Bool Lia Permutation.
From VZ Require Import Model.K19_RowWise.
Import ListNotations.

(* ------------------------------------------------------------------ the map laws *)
Section MapLaws.
  Variables A B : Type.
  Variable T : list A -> list B.
  Variable row : A -> B.
  Hypothesis T_map : forall X, T X = map row X.

  Lemma law_concat : forall X Y, T (X ++ Y) = T X ++ T Y.
  Proof. intros. rewrite !T_map. apply map_app. Qed.

  Lemma law_perm : forall X Y, Permutation X Y -> Permutation (T X) (T Y).
  Proof. intros. rewrite !T_map. now apply Permutation_map. Qed.

  (* equivariance with the positions made explicit: reordering the batch by the index list idx reorders the rows *)
  Lemma law_reindex : forall X d idx,
    T (map (fun i => nth i X d) idx) = map (fun i => nth i (T X) (row d)) idx.
  Proof.
    intros. rewrite !T_map, map_map. apply map_ext. intro i. now rewrite map_nth.
  Qed.

  Lemma law_nth : forall X d i, nth i (T X) (row d) = row (nth i X d).
  Proof. intros. rewrite T_map. apply map_nth. Qed.

  Lemma law_length : forall X, length (T X) = length X.
  Proof. intros. rewrite T_map. apply map_length. Qed.

  Lemma law_duplicates : forall X d i j,
    nth i X d = nth j X d -> nth i (T X) (row d) = nth j (T X) (row d).
  Proof. intros X d i j H. rewrite !law_nth. now rewrite H. Qed.

  Lemma law_singletons : forall X, T X = concat (map (fun x => T [x]) X).
  Proof.
    intros. induction X as [|x X IH]; [now rewrite T_map|].
    cbn [map concat]. change (x :: X) with ([x] ++ X). rewrite law_concat, IH. reflexivity.
  Qed.
End MapLaws.

(* ------------------------------------------------------------------ loops *)
Lemma set_nth_length : forall (C : Type) (l : list C) i v, length (set_nth l i v) = length l.
Proof. induction l as [|h t IH]; intros [|i] v; cbn; auto. Qed.

Lemma set_nth_nth : forall (C : Type) (l : list C) i j v d,
  nth j (set_nth l i v) d = if Nat.eqb i j then (if (i <? length l)%nat then v else nth j l d) else nth j l d.
Proof.
  induction l as [|h t IH]; intros i j v d.
  - cbn. destruct i, j; cbn; try reflexivity; destruct (Nat.eqb i j); reflexivity.
  - destruct i, j; cbn [set_nth nth Nat.eqb]; try reflexivity.
    rewrite IH. cbn [length]. destruct (Nat.eqb i j); [|reflexivity].
    change (S i <? S (length t))%nat with (i <? length t)%nat. reflexivity.
Qed.

Section LoopProofs.
  Variables A B : Type.
  Variable row : A -> B.

  Lemma append_loop_gen : forall X acc,
    fold_left (fun acc x => acc ++ [row x]) X acc = acc ++ map row X.
  Proof.
    induction X as [|x X IH]; intro acc; cbn; [now rewrite app_nil_r|].
    rewrite IH, <- app_assoc. reflexivity.
  Qed.

  Lemma append_loop_map : forall X, append_loop A B row X = map row X.
  Proof. intro X. unfold append_loop. now rewrite append_loop_gen. Qed.

  Lemma fill_loop_gen : forall X done rest k,
    length done = k -> length rest = length X ->
    fold_left (fun st x => (set_nth (fst st) (snd st) (row x), S (snd st))) X (done ++ rest, k)
    = (done ++ map row X, (k + length X)%nat).
  Proof.
    induction X as [|x X IH]; intros done rest k Hd Hr.
    - destruct rest; [|discriminate]. cbn. now rewrite Nat.add_0_r.
    - destruct rest as [|g rest]; [discriminate|]. cbn [fold_left fst snd].
      assert (E : set_nth (done ++ g :: rest) k (row x) = (done ++ [row x]) ++ rest).
      { clear -Hd. revert k Hd. induction done as [|h t IHd]; intros k Hd; cbn in *.
        - subst k. reflexivity.
        - destruct k; [discriminate|]. cbn. f_equal. apply IHd. lia. }
      rewrite E, (IH (done ++ [row x]) rest (S k)).
      + rewrite <- app_assoc. cbn [length map app]. f_equal. lia.
      + rewrite app_length. cbn. lia.
      + cbn in Hr. lia.
  Qed.

  (* whatever the uninitialised rows contain, every one of them is overwritten *)
  Lemma fill_loop_map : forall garbage X, length garbage = length X -> fill_loop A B row garbage X = map row X.
  Proof.
    intros garbage X H. unfold fill_loop.
    change (garbage, 0%nat) with ([] ++ garbage, 0%nat).
    rewrite (fill_loop_gen X [] garbage 0 eq_refl H). reflexivity.
  Qed.

  Lemma prange_fill_nth : forall d X sched init j dB,
    (forall i, In i sched -> (i < length init)%nat) ->
    nth j (prange_fill A B row d init X sched) dB =
    if existsb (Nat.eqb j) sched then row (nth j X d) else nth j init dB.
  Proof.
    intros d X sched. unfold prange_fill. induction sched as [|i sched IH]; intros init j dB Hin; [reflexivity|].
    cbn [fold_left existsb]. rewrite IH.
    - destruct (existsb (Nat.eqb j) sched) eqn:E; [now rewrite orb_true_r|]. rewrite orb_false_r.
      rewrite set_nth_nth. rewrite (Nat.eqb_sym j i). destruct (Nat.eqb i j) eqn:Eij; [|reflexivity].
      apply Nat.eqb_eq in Eij. subst j.
      assert (Hi : (i < length init)%nat) by (apply Hin; now left).
      apply Nat.ltb_lt in Hi. now rewrite Hi.
    - intros k Hk. rewrite set_nth_length. apply Hin. now right.
  Qed.

  Lemma prange_fill_length : forall d X sched init, length (prange_fill A B row d init X sched) = length init.
  Proof.
    intros d X sched. unfold prange_fill. induction sched as [|i sched IH]; intro init; [reflexivity|].
    cbn [fold_left]. rewrite IH. apply set_nth_length.
  Qed.

  (* every schedule that visits each index of the batch (at least) once gives the same result: map row X *)
  Lemma prange_fill_map : forall d X sched init,
    length init = length X ->
    (forall i, In i sched -> (i < length X)%nat) ->
    (forall i, (i < length X)%nat -> In i sched) ->
    prange_fill A B row d init X sched = map row X.
  Proof.
    intros d X sched init Hlen Hin Hall.
    apply (nth_ext _ _ (row d) (row d)).
    - now rewrite prange_fill_length, map_length.
    - intros j Hj. rewrite prange_fill_length in Hj.
      rewrite prange_fill_nth by (intros; rewrite Hlen; now apply Hin).
      assert (E : existsb (Nat.eqb j) sched = true).
      { apply existsb_exists. exists j. split; [apply Hall; lia|apply Nat.eqb_refl]. }
      rewrite E. now rewrite map_nth.
  Qed.

  Lemma prange_fill_perm : forall d X sched init,
    length init = length X -> Permutation sched (seq 0 (length X)) ->
    prange_fill A B row d init X sched = map row X.
  Proof.
    intros d X sched init Hlen P. apply prange_fill_map; auto.
    - intros i Hi. apply (Permutation_in _ P) in Hi. apply in_seq in Hi. lia.
    - intros i Hi. apply (Permutation_in _ (Permutation_sym P)). apply in_seq. lia.
  Qed.
End LoopProofs.

(* ------------------------------------------------------------------ CSR assembly *)
Lemma slice_app_old : forall (C : Type) (l ex : list C) s e,
  (s <= length l)%nat -> (e <= length l)%nat -> slice (l ++ ex) s e = slice l s e.
Proof.
  intros C l ex s e Hs He. unfold slice. rewrite skipn_app.
  replace (s - length l)%nat with 0%nat by lia. cbn [skipn].
  rewrite firstn_app, skipn_length.
  replace (e - s - (length l - s))%nat with 0%nat by lia. cbn [firstn]. now rewrite app_nil_r.
Qed.

Lemma slice_app_new : forall (C : Type) (l new : list C),
  slice (l ++ new) (length l) (length l + length new) = new.
Proof.
  intros. unfold slice. rewrite skipn_app, skipn_all, Nat.sub_diag. cbn [skipn app].
  replace (length l + length new - length l)%nat with (length new) by lia. apply firstn_all.
Qed.

Lemma combine_snoc : forall (C : Type) (l : list C) a x d,
  combine ((a :: l) ++ [x]) (l ++ [x]) = combine (a :: l) l ++ [(last (a :: l) d, x)].
Proof.
  induction l as [|b l IH]; intros a x d; [reflexivity|].
  change (combine ((a :: b :: l) ++ [x]) ((b :: l) ++ [x])) with ((a, b) :: combine ((b :: l) ++ [x]) (l ++ [x])).
  rewrite (IH b x d). reflexivity.
Qed.

Lemma combine_map_fst_snd : forall (C D : Type) (r : list (C * D)), combine (map fst r) (map snd r) = r.
Proof. induction r as [|[a b] r IH]; cbn; [reflexivity|now rewrite IH]. Qed.

Definition csr_inv (m : csr) : Prop :=
  let '(ip, ind, dat) := m in
  ip <> [] /\ last ip 0%nat = length ind /\ length dat = length ind /\ Forall (fun p => (p <= length ind)%nat) ip.

Lemma in_combine_tl : forall (l : list nat) p, In p (combine l (tl l)) -> In (fst p) l /\ In (snd p) l.
Proof.
  intros l [s e] H. split.
  - eapply in_combine_l; eauto.
  - apply in_combine_r in H. destruct l; [destruct H|]. now right.
Qed.

Lemma csr_append_rows : forall m adv r,
  csr_inv m -> adv = length r ->
  csr_inv (csr_append m adv r) /\ csr_rows (csr_append m adv r) = csr_rows m ++ [r].
Proof.
  intros [[ip ind] dat] adv r (Hne & Hlast & Hdat & Hall) ->. cbn [csr_append]. split.
  - cbn [csr_inv]. repeat split.
    + destruct ip; discriminate.
    + rewrite last_last, app_length, map_length. lia.
    + rewrite !app_length, !map_length. lia.
    + apply Forall_app. split.
      * eapply Forall_impl; [|exact Hall]. intros p Hp. cbn in Hp. rewrite app_length. lia.
      * constructor; [|constructor]. rewrite app_length, map_length. lia.
  - cbn [csr_rows]. destruct ip as [|a ip']; [congruence|].
    change (tl ((a :: ip') ++ [(last (a :: ip') 0 + length r)%nat])) with (ip' ++ [(last (a :: ip') 0 + length r)%nat]).
    rewrite (combine_snoc _ ip' a _ 0%nat), map_app. f_equal.
    + apply map_ext_in. intros p Hp.
      destruct (in_combine_tl (a :: ip') p Hp) as [H1 H2].
      rewrite Forall_forall in Hall. pose proof (Hall _ H1). pose proof (Hall _ H2).
      rewrite !slice_app_old by lia. reflexivity.
    + cbn [map fst snd]. rewrite Hlast.
      pose proof (slice_app_new _ ind (map fst r)) as E1. rewrite map_length in E1.
      pose proof (slice_app_new _ dat (map snd r)) as E2. rewrite map_length, Hdat in E2.
      rewrite E1, E2, combine_map_fst_snd. reflexivity.
Qed.

Lemma csr_loop_gen : forall (A : Type) (rowf : A -> list (Z * Z)) (advance : A -> nat) X m,
  csr_inv m -> (forall x, In x X -> advance x = length (rowf x)) ->
  csr_rows (fold_left (fun m x => csr_append m (advance x) (rowf x)) X m) = csr_rows m ++ map rowf X.
Proof.
  induction X as [|x X IH]; intros m Hinv Hadv; cbn [fold_left map]; [now rewrite app_nil_r|].
  destruct (csr_append_rows m (advance x) (rowf x) Hinv (Hadv x (or_introl eq_refl))) as [Hinv' Hrows].
  rewrite IH; auto; [|intros; apply Hadv; now right]. rewrite Hrows, <- app_assoc. reflexivity.
Qed.

(* the matrix rows cut out by the running indptr are exactly the per-item rows: nothing leaks between items *)
Lemma csr_loop_rows : forall (A : Type) (rowf : A -> list (Z * Z)) (advance : A -> nat) X,
  (forall x, In x X -> advance x = length (rowf x)) ->
  csr_rows (csr_loop rowf advance X) = map rowf X.
Proof.
  intros. unfold csr_loop. rewrite csr_loop_gen; auto.
  cbn. repeat split; auto. discriminate.
Qed.

(* ------------------------------------------------------------------ LZ *)
Section LZProofs.
  Variable K : Type.
  Variable keqb : K -> K -> bool.
  Variable h : list Z -> K.

  Lemma lz_row_of_length : forall (coldict enc : dict K),
    (forall kv, In kv enc -> dfind K keqb (fst kv) coldict <> None) ->
    length (lz_row_of K keqb coldict enc) = length enc.
  Proof.
    intros coldict enc. unfold lz_row_of. induction enc as [|kv enc IH]; intro H; [reflexivity|].
    cbn [flat_map]. rewrite app_length, IH by (intros; apply H; now right).
    destruct (dfind K keqb (fst kv) coldict) eqn:E; [reflexivity|].
    exfalso. apply (H kv (or_introl eq_refl)). exact E.
  Qed.

  (* every string is parsed from a fresh copy of the base dictionary: the matrix rows are a map of the strings,
     whether or not every parsed phrase has a column (unseen phrases are dropped, indptr advances by the kept ones) *)
  Lemma lz_transform_rows : forall coldict base max_size X,
    csr_rows (lz_transform K keqb h coldict base max_size X) = map (lz_row K keqb h coldict base max_size) X.
  Proof.
    intros coldict base max_size X. unfold lz_transform. apply csr_loop_rows.
    intros s Hs. reflexivity.
  Qed.

  (* the row of a string keeps exactly the phrases of its own parse that have a column *)
  Lemma lz_row_spec : forall coldict base max_size s c v,
    In (c, v) (lz_row K keqb h coldict base max_size s) <->
    exists k, In (k, v) (lz_encode K keqb h max_size s base) /\ dfind K keqb k coldict = Some c.
  Proof.
    intros coldict base max_size s c v. unfold lz_row, lz_row_of. rewrite in_flat_map. split.
    - intros ((k, v') & Hin & Hrow). cbn [fst snd] in Hrow.
      destruct (dfind K keqb k coldict) as [c'|] eqn:E; [|contradiction].
      destruct Hrow as [Heq|[]]. inversion Heq; subst. exists k. split; assumption.
    - intros (k & Hin & E). exists (k, v). split; [exact Hin|]. cbn [fst snd]. rewrite E. now left.
  Qed.
End LZProofs.

(* without the reset the second of two equal strings gets a different row *)
Lemma lz_noreset_differs :
  lz_transform_noreset (list Z) list_eqb (fun p => p) [([], 0%Z)] [] 10 [[97%Z]; [97%Z]]
  <> map (lz_row (list Z) list_eqb (fun p => p) [([], 0%Z)] [] 10) [[97%Z]; [97%Z]].
Proof. vm_compute. discriminate. Qed.

(* ------------------------------------------------------------------ BPE *)
Lemma bpe_encode_all_map : forall code_list mcc X sched,
  Permutation sched (seq 0 (length X)) ->
  bpe_encode_all code_list mcc X sched = map (bpe_encode code_list mcc) X.
Proof.
  intros. unfold bpe_encode_all. apply prange_fill_perm; auto. apply repeat_length.
Qed.

(* ------------------------------------------------------------------ blocks and chunks *)
Lemma firstn_add : forall (C : Type) a c (l : list C), firstn (a + c) l = firstn a l ++ firstn c (skipn a l).
Proof.
  induction a as [|a IH]; intros c l; [reflexivity|].
  destruct l as [|x l]; cbn [plus firstn skipn app]; [now rewrite firstn_nil|]. now rewrite IH.
Qed.

Lemma skipn_skipn' : forall (C : Type) a b (l : list C), skipn a (skipn b l) = skipn (a + b) l.
Proof.
  intros C a b. revert a. induction b as [|b IH]; intros a l.
  - now rewrite Nat.add_0_r.
  - destruct l as [|x l]; [now rewrite !skipn_nil|]. rewrite Nat.add_succ_r. cbn [skipn]. apply IH.
Qed.

Lemma slice_cat : forall (C : Type) (X : list C) s m e,
  (s <= m)%nat -> (m <= e)%nat -> slice X s m ++ slice X m e = slice X s e.
Proof.
  intros C X s m e H1 H2. unfold slice.
  replace (e - s)%nat with ((m - s) + (e - m))%nat by lia.
  rewrite firstn_add, skipn_skipn'. replace (m - s + s)%nat with m by lia. reflexivity.
Qed.

Lemma slice_empty : forall (C : Type) (X : list C) s e, (e <= s)%nat -> slice X s e = [].
Proof. intros. unfold slice. replace (e - s)%nat with 0%nat by lia. reflexivity. Qed.

Lemma slice_all : forall (C : Type) (X : list C), slice X 0 (length X) = X.
Proof. intros. unfold slice. cbn [skipn]. rewrite Nat.sub_0_r. apply firstn_all. Qed.

Lemma chunks_rows_gen : forall (C : Type) (X : list C) c bs be k,
  (bs <= be)%nat ->
  concat (map (fun j => slice X (j * c + bs) (Nat.min be (j * c + bs + c))) (seq 0 k))
  = slice X bs (Nat.min be (k * c + bs)).
Proof.
  intros C X c bs be k Hb. induction k as [|k IH].
  - cbn [seq map concat]. symmetry. apply slice_empty. lia.
  - rewrite seq_S, map_app, concat_app, IH. cbn [plus map concat]. rewrite app_nil_r.
    replace (S k * c + bs)%nat with (k * c + bs + c)%nat by lia.
    destruct (Nat.le_gt_cases (k * c + bs) be) as [Hle|Hgt].
    + replace (Nat.min be (k * c + bs)) with (k * c + bs)%nat by lia. apply slice_cat; lia.
    + replace (Nat.min be (k * c + bs)) with be by lia.
      replace (Nat.min be (k * c + bs + c)) with be by lia.
      rewrite (slice_empty _ X (k * c + bs) be) by lia. apply app_nil_r.
Qed.

Lemma div_succ_mul_gt : forall n b, (0 < b)%nat -> (n < (n / b + 1) * b)%nat.
Proof.
  intros n b Hb. pose proof (Nat.div_mod n b ltac:(lia)) as E.
  pose proof (Nat.mod_upper_bound n b ltac:(lia)) as U. nia.
Qed.

Lemma chunks_rows : forall (C : Type) (X : list C) c bs be,
  (0 < c)%nat -> (bs <= be)%nat -> concat (map (rows_of X) (chunks c bs be)) = slice X bs be.
Proof.
  intros C X c bs be Hc Hb. unfold chunks. rewrite map_map. unfold rows_of. cbn [fst snd].
  rewrite chunks_rows_gen by exact Hb.
  pose proof (div_succ_mul_gt (be - bs) c Hc). f_equal. lia.
Qed.

Lemma blocks_as_chunks : forall b n, blocks b n = chunks b 0 n.
Proof.
  intros. unfold blocks, chunks. rewrite Nat.sub_0_r. apply map_ext. intro i.
  rewrite !Nat.add_0_r. reflexivity.
Qed.

Lemma blocks_rows : forall (C : Type) (X : list C) b,
  (0 < b)%nat -> concat (map (rows_of X) (blocks b (length X))) = X.
Proof.
  intros. rewrite blocks_as_chunks, chunks_rows by lia. apply slice_all.
Qed.

Lemma chunks_range_gen : forall c bs be k,
  (bs <= be)%nat ->
  concat (map (fun j => seq (j * c + bs) (Nat.min be (j * c + bs + c) - (j * c + bs))) (seq 0 k))
  = seq bs (Nat.min be (k * c + bs) - bs).
Proof.
  intros c bs be k Hb. induction k as [|k IH].
  - cbn [seq map concat]. replace (Nat.min be (0 * c + bs) - bs)%nat with 0%nat by lia. reflexivity.
  - rewrite seq_S, map_app, concat_app, IH. cbn [plus map concat]. rewrite app_nil_r.
    replace (S k * c + bs)%nat with (k * c + bs + c)%nat by lia.
    destruct (Nat.le_gt_cases (k * c + bs) be) as [Hle|Hgt].
    + replace (Nat.min be (k * c + bs)) with (k * c + bs)%nat by lia.
      replace (Nat.min be (k * c + bs + c) - bs)%nat
        with ((k * c + bs - bs) + (Nat.min be (k * c + bs + c) - (k * c + bs)))%nat by lia.
      rewrite seq_app. f_equal. f_equal. lia.
    + replace (Nat.min be (k * c + bs)) with be by lia.
      replace (Nat.min be (k * c + bs + c)) with be by lia.
      replace (be - (k * c + bs))%nat with 0%nat by lia. apply app_nil_r.
Qed.

(* every row index of [bs, be) is visited exactly once, in increasing order *)
Lemma chunks_cover : forall c bs be,
  (0 < c)%nat -> (bs <= be)%nat -> concat (map range (chunks c bs be)) = seq bs (be - bs).
Proof.
  intros c bs be Hc Hb. unfold chunks. rewrite map_map. unfold range. cbn [fst snd].
  rewrite chunks_range_gen by exact Hb.
  pose proof (div_succ_mul_gt (be - bs) c Hc). f_equal. lia.
Qed.

Lemma blocks_cover : forall b n, (0 < b)%nat -> concat (map range (blocks b n)) = seq 0 n.
Proof.
  intros. rewrite blocks_as_chunks, chunks_cover by lia. now rewrite Nat.sub_0_r.
Qed.

Lemma blocks_wf : forall b n p, In p (blocks b n) -> (fst p <= snd p <= n)%nat.
Proof.
  intros b n p H. unfold blocks in H. apply in_map_iff in H. destruct H as (i & <- & Hi).
  apply in_seq in Hi. cbn [fst snd].
  destruct (Nat.eq_dec b 0) as [->|Hb].
  - rewrite Nat.mul_0_r. lia.
  - assert (i * b <= n)%nat.
    { assert (i <= n / b)%nat by lia. pose proof (Nat.mul_div_le n b Hb). nia. }
    lia.
Qed.

Lemma blockwise_map : forall (A B : Type) (f : list A -> list B) (row : A -> B) b X,
  (0 < b)%nat -> (forall Y, f Y = map row Y) -> blockwise f b X = map row X.
Proof.
  intros A B f row b X Hb Hf. unfold blockwise.
  rewrite (map_ext _ (fun p => map row (rows_of X p))) by (intro; apply Hf).
  rewrite <- (map_map (rows_of X) (map row)), <- concat_map, blocks_rows by exact Hb. reflexivity.
Qed.

Lemma block_chunkwise_map : forall (A B : Type) (f : list A -> list B) (row : A -> B) b c X,
  (0 < b)%nat -> (0 < c)%nat -> (forall Y, f Y = map row Y) -> block_chunkwise f b c X = map row X.
Proof.
  intros A B f row b c X Hb Hc Hf. unfold block_chunkwise.
  rewrite (map_ext_in _ (fun p => map row (rows_of X p))).
  - rewrite <- (map_map (rows_of X) (map row)), <- concat_map, blocks_rows by exact Hb. reflexivity.
  - intros blk Hblk. pose proof (blocks_wf _ _ _ Hblk) as Hw.
    rewrite (map_ext _ (fun p => map row (rows_of X p))) by (intro; apply Hf).
    rewrite <- (map_map (rows_of X) (map row)), <- concat_map, chunks_rows by lia. reflexivity.
Qed.

(* the chunk partition itself, for a kernel that is NOT a map (batched Sinkhorn): the batches it is applied to are
   consecutive pieces of X that together make up X *)
Lemma block_chunk_partition : forall (A : Type) (X : list A) b c,
  (0 < b)%nat -> (0 < c)%nat ->
  concat (map (fun blk => concat (map (rows_of X) (chunks c (fst blk) (snd blk)))) (blocks b (length X))) = X.
Proof.
  intros A X b c Hb Hc.
  rewrite (map_ext_in _ (rows_of X)).
  - now apply blocks_rows.
  - intros blk Hblk. pose proof (blocks_wf _ _ _ Hblk). rewrite chunks_rows by lia. reflexivity.
Qed.

Lemma block_sizes_sum : forall b n, (0 < b)%nat -> list_sum (block_sizes b n) = n.
Proof.
  intros b n Hb. unfold block_sizes.
  assert (E : forall l, list_sum (map (fun p : nat * nat => (snd p - fst p)%nat) l) = length (concat (map range l))).
  { induction l as [|p l IH]; [reflexivity|]. cbn [map list_sum concat]. rewrite app_length, <- IH.
    unfold range at 1. rewrite seq_length. reflexivity. }
  rewrite E, blocks_cover by exact Hb. apply seq_length.
Qed.

(* ------------------------------------------------------------------ the chunk loop inside the LOT kernels *)
Lemma kernel_chunks_as_chunks : forall c n, kernel_chunks c n = chunks c 0 n.
Proof.
  intros. unfold kernel_chunks, chunks. rewrite Nat.sub_0_r. apply map_ext. intro k.
  rewrite !Nat.add_0_r. f_equal. apply Nat.min_comm.
Qed.

Lemma kernel_chunks_cover : forall c n, (0 < c)%nat -> concat (map range (kernel_chunks c n)) = seq 0 n.
Proof.
  intros c n Hc. rewrite kernel_chunks_as_chunks, chunks_cover by lia. now rewrite Nat.sub_0_r.
Qed.

(* pointwise: row r of a block of n rows lies in exactly one chunk, the chunk r / c *)
Lemma kernel_chunks_once : forall c n r, (0 < c)%nat -> (r < n)%nat ->
  (r / c < n / c + 1)%nat /\
  forall k, (k < n / c + 1)%nat -> ((k * c <= r < Nat.min (k * c + c) n)%nat <-> k = (r / c)%nat).
Proof.
  intros c n r Hc Hr.
  pose proof (Nat.div_mod r c ltac:(lia)) as Er. pose proof (Nat.mod_upper_bound r c ltac:(lia)) as Ur.
  pose proof (Nat.div_mod n c ltac:(lia)) as En. pose proof (Nat.mod_upper_bound n c ltac:(lia)) as Un.
  assert (Hle : (r / c <= n / c)%nat) by (apply Nat.div_le_mono; lia).
  split; [lia|]. intros k Hk. split.
  - intros [H1 H2]. assert (H3 : (r < k * c + c)%nat) by lia. nia.
  - intros ->. split; [nia|]. apply Nat.min_glb_lt; [nia|exact Hr].
Qed.

Lemma kernel_chunk_fill_map : forall (A B : Type) (row : A -> B) d zero c X,
  (0 < c)%nat -> kernel_chunk_fill row d zero (kernel_chunks c (length X)) X = map row X.
Proof.
  intros A B row d zero c X Hc. unfold kernel_chunk_fill. rewrite kernel_chunks_cover by exact Hc.
  apply prange_fill_perm; [apply repeat_length|apply Permutation_refl].
Qed.

(* a row outside every chunk keeps the zero it was initialised with *)
Lemma kernel_chunk_fill_unwritten : forall (A B : Type) (row : A -> B) d zero chunk_list X r,
  (forall i, In i (concat (map range chunk_list)) -> (i < length X)%nat) ->
  ~ In r (concat (map range chunk_list)) ->
  nth r (kernel_chunk_fill row d zero chunk_list X) zero = zero.
Proof.
  intros A B row d zero chunk_list X r Hin Hr. unfold kernel_chunk_fill.
  rewrite prange_fill_nth by (intros i Hi; rewrite repeat_length; now apply Hin).
  destruct (existsb (Nat.eqb r) (concat (map range chunk_list))) eqn:E.
  - apply existsb_exists in E. destruct E as (x & Hx & Hx'). apply Nat.eqb_eq in Hx'. subst x. contradiction.
  - destruct (Nat.lt_ge_cases r (length X)) as [Hlt|Hge].
    + apply nth_repeat.
    + apply nth_overflow. now rewrite repeat_length.
Qed.

(* with the chunk count max(1, n // c) the rows after the last full chunk are never written *)
Lemma kernel_chunks_short_differs :
  kernel_chunk_fill (fun x : Z => (x + 1)%Z) 0%Z 0%Z (kernel_chunks_short 2 3) [5; 6; 7]%Z
  <> map (fun x : Z => (x + 1)%Z) [5; 6; 7]%Z.
Proof. vm_compute. discriminate. Qed.

(* a block size larger than the batch gives the single block [0, n) *)
Lemma blocks_larger : forall b n, (n < b)%nat -> blocks b n = [(0, n)]%nat.
Proof.
  intros b n H. unfold blocks. rewrite Nat.div_small by exact H. cbn [plus seq map].
  f_equal. f_equal. lia.
Qed.


(* ------------------------------------------------------------------ batched Sinkhorn *)
Fixpoint iter {S : Type} (k : nat) (f : S -> S) (s : S) : S :=
  match k with O => s | S k' => iter k' f (f s) end.

Section SinkhornProofs.
  Variables Item St : Type.
  Variable init : Item -> St.
  Variable step : Item -> St -> St.
  Variable nonfinite : Item -> St -> bool.
  Variable converged : list (Item * St) -> bool.

  Lemma sink_loop_spec : forall fuel it batch,
    sink_loop Item St step nonfinite converged fuel it batch
    = map (fun p => (fst p, iter (sink_count Item St step nonfinite converged fuel it batch) (step (fst p)) (snd p))) batch.
  Proof.
    induction fuel as [|f IH]; intros it batch.
    - cbn. symmetry. erewrite map_ext; [apply map_id|]. intros [a b]. reflexivity.
    - cbn [sink_loop sink_count].
      destruct (existsb (fun p => nonfinite (fst p) (snd p)) (advance Item St step batch)).
      + cbn. symmetry. erewrite map_ext; [apply map_id|]. intros [a b]. reflexivity.
      + destruct ((it mod 10 =? 0)%nat && converged (advance Item St step batch)).
        * reflexivity.
        * rewrite IH. unfold advance at 2. rewrite map_map. apply map_ext. intros [a b]. reflexivity.
  Qed.

  (* every row of a batch is the T-th iterate of ITS OWN item; the only thing shared is T = stop_index batch *)
  Lemma sinkhorn_batch_spec : forall max_iter items,
    sinkhorn_batch Item St init step nonfinite converged max_iter items
    = map (fun x => iter (stop_index Item St init step nonfinite converged max_iter items) (step x) (init x)) items.
  Proof.
    intros. unfold sinkhorn_batch, stop_index. rewrite sink_loop_spec. unfold start. rewrite !map_map.
    apply map_ext. reflexivity.
  Qed.

  Lemma sinkhorn_same_stop_same_row : forall max_iter X Y i j d,
    (i < length X)%nat -> (j < length Y)%nat -> nth i X d = nth j Y d ->
    stop_index Item St init step nonfinite converged max_iter X
    = stop_index Item St init step nonfinite converged max_iter Y ->
    nth i (sinkhorn_batch Item St init step nonfinite converged max_iter X) (init d)
    = nth j (sinkhorn_batch Item St init step nonfinite converged max_iter Y) (init d).
  Proof.
    intros max_iter X Y i j d Hi Hj Hx HT. rewrite !sinkhorn_batch_spec.
    set (fX := fun x => iter (stop_index Item St init step nonfinite converged max_iter X) (step x) (init x)).
    set (fY := fun x => iter (stop_index Item St init step nonfinite converged max_iter Y) (step x) (init x)).
    rewrite (nth_indep (map fX X) (init d) (fX d)) by now rewrite map_length.
    rewrite (nth_indep (map fY Y) (init d) (fY d)) by now rewrite map_length.
    rewrite !map_nth. unfold fX, fY. now rewrite HT, Hx.
  Qed.
End SinkhornProofs.

(* an instance in which the row of an item changes with its batch mates: item 0 makes the first candidate
   non-finite (a support point whose kernel column underflows), which stops the whole batch at once *)
Definition ex_nonfinite (it s : nat) : bool := Nat.eqb it 0.
Definition ex_converged (batch : list (nat * nat)) : bool := forallb (fun p => (3 <=? snd p)%nat) batch.

Lemma sinkhorn_batch_not_rowwise :
  nth 0 (sinkhorn_batch nat nat (fun _ => 0%nat) (fun _ s => S s) ex_nonfinite ex_converged 1000 [7%nat]) 0%nat
  <> nth 0 (sinkhorn_batch nat nat (fun _ => 0%nat) (fun _ s => S s) ex_nonfinite ex_converged 1000 [7%nat; 0%nat]) 0%nat.
Proof. vm_compute. discriminate. Qed.

(* ------------------------------------------------------------------ InformationWeight *)
Lemma dotZ_indicator : forall r s j c,
  dotZ r (map (fun k => if Nat.eqb j k then c else 0%Z) (seq s (length r)))
  = if ((s <=? j) && (j <? s + length r))%nat then (nth (j - s) r 0 * c)%Z else 0%Z.
Proof.
  induction r as [|a r IH]; intros s j c.
  - cbn [length seq map dotZ].
    destruct (Nat.leb_spec s j), (Nat.ltb_spec j (s + 0)); cbn [andb]; try reflexivity. lia.
  - cbn [length seq map dotZ]. rewrite IH.
    destruct (Nat.eqb_spec j s) as [->|Hne].
    + replace (S s <=? s)%nat with false by (symmetry; apply Nat.leb_gt; lia). cbn [andb].
      replace (s <=? s)%nat with true by (symmetry; apply Nat.leb_le; lia).
      replace (s <? s + S (length r))%nat with true by (symmetry; apply Nat.ltb_lt; lia).
      cbn [andb]. rewrite Nat.sub_diag. cbn [nth]. lia.
    + destruct (Nat.leb_spec (S s) j), (Nat.ltb_spec j (S s + length r)), (Nat.leb_spec s j),
               (Nat.ltb_spec j (s + S (length r))); cbn [andb]; try lia.
      replace (j - s)%nat with (S (j - S s)) by lia. cbn [nth]. lia.
Qed.

Lemma infoweight_row_spec : forall w r,
  length r = length w ->
  map (dotZ r) (diag_cols w) = map (fun j => (nth j r 0 * nth j w 0)%Z) (seq 0 (length w)).
Proof.
  intros w r Hlen. unfold diag_cols. rewrite map_map. apply map_ext_in. intros j Hj. apply in_seq in Hj.
  unfold diag_col. rewrite <- Hlen, dotZ_indicator.
  replace (0 <=? j)%nat with true by (symmetry; apply Nat.leb_le; lia).
  replace (j <? 0 + length r)%nat with true by (symmetry; apply Nat.ltb_lt; lia).
  cbn [andb]. now rewrite Nat.sub_0_r.
Qed.

Lemma infoweight_transform_spec : forall w X,
  Forall (fun r => length r = length w) X ->
  infoweight_transform w X = map (fun r => map (fun j => (nth j r 0 * nth j w 0)%Z) (seq 0 (length w))) X.
Proof.
  intros w X H. unfold infoweight_transform, matmul_cols. apply map_ext_in. intros r Hr.
  rewrite Forall_forall in H. now apply infoweight_row_spec, H.
Qed.

Lemma infoweight_transform_is_map : forall w X,
  infoweight_transform w X = map (fun r => map (dotZ r) (diag_cols w)) X.
Proof. reflexivity. Qed.
