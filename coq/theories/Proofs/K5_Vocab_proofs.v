(* Proofs about Model/K5_Vocab.v (generic in the token type and in the four float operations). *)
From Coq Require Import ZArith List Bool Arith Lia Sorted Permutation.
From VZ Require Import Model.K5_Vocab.
Import ListNotations.
Open Scope Z_scope.

(* ------------------------------------------------------------------ np.sort and the (k+1)-th largest value *)
Lemma insertZ_perm : forall x l, Permutation (insertZ x l) (x :: l).
Proof.
  intros x l; induction l as [|h r IH]; simpl; [reflexivity|].
  destruct (x <=? h); [reflexivity|].
  rewrite IH. apply perm_swap.
Qed.

Lemma sortZ_perm : forall l, Permutation (sortZ l) l.
Proof.
  induction l as [|h r IH]; simpl; [reflexivity|].
  rewrite insertZ_perm. now constructor.
Qed.

Lemma insertZ_sorted : forall x l, StronglySorted Z.le l -> StronglySorted Z.le (insertZ x l).
Proof.
  intros x l; induction l as [|h r IH]; intros Hs; simpl.
  - repeat constructor.
  - inversion Hs as [|? ? Hr Hall]; subst.
    destruct (Z.leb_spec x h) as [Hle|Hgt].
    + constructor; [exact Hs|]. constructor; [exact Hle|].
      eapply Forall_impl; [|exact Hall]. intros; lia.
    + constructor; [apply IH; exact Hr|].
      eapply Permutation_Forall; [symmetry; apply insertZ_perm|].
      constructor; [lia|exact Hall].
Qed.

Lemma sortZ_sorted : forall l, StronglySorted Z.le (sortZ l).
Proof.
  induction l as [|h r IH]; simpl; [constructor|]. now apply insertZ_sorted.
Qed.

Definition count_ge (x : Z) (l : list Z) : nat := length (filter (fun y => x <=? y) l).
Definition count_gt (x : Z) (l : list Z) : nat := length (filter (fun y => x <? y) l).

Lemma count_ge_perm : forall x l l', Permutation l l' -> count_ge x l = count_ge x l'.
Proof.
  intros x l l' H. unfold count_ge. induction H; simpl.
  - reflexivity.
  - destruct (x <=? x0); simpl; lia.
  - destruct (x <=? y), (x <=? x0); simpl; lia.
  - lia.
Qed.

Lemma count_gt_perm : forall x l l', Permutation l l' -> count_gt x l = count_gt x l'.
Proof.
  intros x l l' H. unfold count_gt. induction H; simpl.
  - reflexivity.
  - destruct (x <? x0); simpl; lia.
  - destruct (x <? y), (x <? x0); simpl; lia.
  - lia.
Qed.

Lemma filter_none : forall (A : Type) (p : A -> bool) l, Forall (fun a => p a = false) l -> filter p l = [].
Proof.
  intros A p l H; induction H as [|a l Ha _ IH]; simpl; [reflexivity|]. now rewrite Ha.
Qed.

Lemma filter_all : forall (A : Type) (p : A -> bool) l, Forall (fun a => p a = true) l -> filter p l = l.
Proof.
  intros A p l H; induction H as [|a l Ha _ IH]; simpl; [reflexivity|]. rewrite Ha. now f_equal.
Qed.

Lemma filter_length_le : forall (A : Type) (p : A -> bool) l, (length (filter p l) <= length l)%nat.
Proof. intros A p l; induction l as [|a l IH]; simpl; [lia|]. destruct (p a); simpl; lia. Qed.

Lemma sorted_split : forall (s : list Z) (j : nat), StronglySorted Z.le s -> (j < length s)%nat ->
  let v := nth j s 0 in
  s = firstn j s ++ v :: skipn (S j) s /\ Forall (fun y => y <= v) (firstn j s) /\ Forall (fun y => v <= y) (skipn (S j) s).
Proof.
  intros s; induction s as [|h r IH]; intros j Hs Hj; simpl in Hj; [lia|].
  inversion Hs as [|? ? Hr Hall]; subst.
  destruct j as [|j]; simpl.
  - repeat split; [constructor | exact Hall].
  - destruct (IH j Hr ltac:(lia)) as (E & Hlo & Hhi).
    split; [f_equal; exact E|]. split; [|exact Hhi].
    constructor; [|exact Hlo].
    rewrite Forall_forall in Hall. apply Hall. apply nth_In. lia.
Qed.

(* v = the (k+1)-th largest value of l (np.sort(l)[-k-1]) *)
Lemma kth_largest_gt_iff : forall (l : list Z) (k : nat) (x : Z), (k < length l)%nat ->
  let v := nth (length l - k - 1) (sortZ l) 0 in
  v < x <-> (count_ge x l <= k)%nat.
Proof.
  intros l k x Hk v.
  assert (Hlen : length (sortZ l) = length l) by (apply Permutation_length, sortZ_perm).
  rewrite (count_ge_perm x l (sortZ l)) by (symmetry; apply sortZ_perm).
  destruct (sorted_split (sortZ l) (length l - k - 1) (sortZ_sorted l) ltac:(lia)) as (E & Hlo & Hhi).
  fold v in E, Hlo, Hhi.
  set (a := firstn (length l - k - 1) (sortZ l)) in *.
  set (b := skipn (S (length l - k - 1)) (sortZ l)) in *.
  assert (Hb : length b = k) by (unfold b; rewrite skipn_length; lia).
  unfold count_ge. rewrite E. rewrite filter_app, app_length. simpl.
  split; intro H.
  - rewrite filter_none.
    + destruct (Z.leb_spec x v); [lia|]. simpl. rewrite <- Hb. apply filter_length_le.
    + eapply Forall_impl; [|exact Hlo]. intros y Hy; simpl in Hy. apply Z.leb_gt. lia.
  - destruct (Z.leb_spec x v) as [Hxv|]; [|lia]. exfalso.
    rewrite (filter_all _ _ b) in H.
    + simpl in H. lia.
    + eapply Forall_impl; [|exact Hhi]. intros y Hy; simpl in Hy. apply Z.leb_le. lia.
Qed.

Lemma kth_largest_count_gt : forall (l : list Z) (k : nat), (k < length l)%nat ->
  (count_gt (nth (length l - k - 1) (sortZ l) 0%Z) l <= k)%nat.
Proof.
  intros l k Hk. set (v := nth (length l - k - 1) (sortZ l) 0).
  assert (Hlen : length (sortZ l) = length l) by (apply Permutation_length, sortZ_perm).
  rewrite (count_gt_perm v l (sortZ l)) by (symmetry; apply sortZ_perm).
  destruct (sorted_split (sortZ l) (length l - k - 1) (sortZ_sorted l) ltac:(lia)) as (E & Hlo & Hhi).
  fold v in E, Hlo, Hhi.
  set (a := firstn (length l - k - 1) (sortZ l)) in *.
  set (b := skipn (S (length l - k - 1)) (sortZ l)) in *.
  assert (Hb : length b = k) by (unfold b; rewrite skipn_length; lia).
  unfold count_gt. rewrite E. rewrite filter_app, app_length. simpl.
  rewrite filter_none.
  - rewrite Z.ltb_irrefl. simpl. rewrite <- Hb. apply filter_length_le.
  - eapply Forall_impl; [|exact Hlo]. intros y Hy; simpl in Hy. apply Z.ltb_ge. lia.
Qed.

(* ------------------------------------------------------------------ tokens *)
Section VocabProofs.
Variable T : Type.
Variable eqb ltb : T -> T -> bool.
Variable matches : T -> bool.
Variables f32div f64div : Z -> Z -> Z.
Variable f64to32 : Z -> Z.
Variable one64 : Z.

Hypothesis eqb_eq : forall a b, eqb a b = true <-> a = b.
Hypothesis ltb_irrefl : forall a, ltb a a = false.
Hypothesis ltb_trans : forall a b c, ltb a b = true -> ltb b c = true -> ltb a c = true.
Hypothesis ltb_total : forall a b, a = b \/ ltb a b = true \/ ltb b a = true.

Notation mem := (mem T eqb).
Notation insert_u := (insert_u T eqb ltb).
Notation sorted_set := (sorted_set T eqb ltb).
Notation mk_dict := (mk_dict T).
Notation lookup := (lookup T eqb).
Notation index_list := (index_list T eqb).

Definition lt (a b : T) : Prop := ltb a b = true.

Lemma eqb_refl : forall a, eqb a a = true.
Proof. intro a. now apply eqb_eq. Qed.

Lemma eqb_neq : forall a b, eqb a b = false <-> a <> b.
Proof.
  intros a b. split.
  - intros H E. apply eqb_eq in E. congruence.
  - intro H. destruct (eqb a b) eqn:E; [|reflexivity]. apply eqb_eq in E. contradiction.
Qed.

Lemma eq_dec : forall a b : T, {a = b} + {a <> b}.
Proof.
  intros a b. destruct (eqb a b) eqn:E; [left; now apply eqb_eq | right; now apply eqb_neq].
Qed.

Lemma mem_In : forall t l, mem t l = true <-> In t l.
Proof.
  intros t l. unfold K5_Vocab.mem. rewrite existsb_exists. split.
  - intros (x & Hx & E). apply eqb_eq in E. now subst.
  - intro H. exists t. split; [exact H | apply eqb_refl].
Qed.

Lemma mem_false : forall t l, mem t l = false <-> ~ In t l.
Proof.
  intros t l. rewrite <- mem_In. destruct (mem t l); split; congruence.
Qed.

(* sorted(set(l)) *)
Lemma insert_u_In : forall t l x, In x (insert_u t l) <-> x = t \/ In x l.
Proof.
  intros t l x; induction l as [|h r IH]; simpl.
  - intuition.
  - destruct (eqb t h) eqn:E.
    + apply eqb_eq in E; subst. simpl. intuition.
    + destruct (ltb t h); simpl; [intuition|]. rewrite IH. intuition.
Qed.

Lemma sorted_set_In : forall l x, In x (sorted_set l) <-> In x l.
Proof.
  induction l as [|h r IH]; intro x; simpl; [reflexivity|].
  rewrite insert_u_In, IH. intuition.
Qed.

Lemma insert_u_sorted : forall t l, StronglySorted lt l -> StronglySorted lt (insert_u t l).
Proof.
  intros t l; induction l as [|h r IH]; intro Hs; simpl.
  - repeat constructor.
  - inversion Hs as [|? ? Hr Hall]; subst.
    destruct (eqb t h) eqn:E; [exact Hs|].
    destruct (ltb t h) eqn:L.
    + constructor; [exact Hs|]. constructor; [exact L|].
      eapply Forall_impl; [|exact Hall]. intros a Ha. unfold lt in *. eapply ltb_trans; eauto.
    + constructor; [now apply IH|].
      rewrite Forall_forall. intros x Hx. apply insert_u_In in Hx. destruct Hx as [->|Hx].
      * apply eqb_neq in E. destruct (ltb_total t h) as [?|[?|?]]; [contradiction|congruence|assumption].
      * rewrite Forall_forall in Hall. now apply Hall.
Qed.

Lemma sorted_set_sorted : forall l, StronglySorted lt (sorted_set l).
Proof.
  induction l as [|h r IH]; simpl; [constructor|]. now apply insert_u_sorted.
Qed.

Lemma sorted_NoDup : forall l, StronglySorted lt l -> NoDup l.
Proof.
  induction 1 as [|a l Hs IH Hall]; constructor; [|exact IH].
  intro Hin. rewrite Forall_forall in Hall. specialize (Hall a Hin). unfold lt in Hall.
  rewrite ltb_irrefl in Hall. discriminate.
Qed.

Lemma ltb_asym : forall a b, ltb a b = true -> ltb b a = true -> False.
Proof. intros a b H1 H2. pose proof (ltb_trans _ _ _ H1 H2) as H. rewrite ltb_irrefl in H. discriminate. Qed.

(* a strictly sorted list is determined by its elements *)
Lemma sorted_unique : forall l l', StronglySorted lt l -> StronglySorted lt l' ->
  (forall x, In x l <-> In x l') -> l = l'.
Proof.
  induction l as [|a l IH]; intros l' Hs Hs' Hin.
  - destruct l' as [|b l']; [reflexivity|]. exfalso. apply (Hin b). now left.
  - destruct l' as [|b l']; [exfalso; apply (Hin a); now left|].
    inversion Hs as [|? ? Hsl Hal]; subst. inversion Hs' as [|? ? Hsl' Hal']; subst.
    rewrite Forall_forall in Hal, Hal'.
    assert (a = b).
    { destruct (proj1 (Hin a) (or_introl eq_refl)) as [E|Ha]; [now symmetry|].
      destruct (proj2 (Hin b) (or_introl eq_refl)) as [E|Hb]; [exact E|].
      exfalso. apply (ltb_asym a b); [apply Hal; exact Hb | apply Hal'; exact Ha]. }
    subst b. f_equal. apply IH; try assumption.
    intro x. split; intro Hx.
    + destruct (proj1 (Hin x) (or_intror Hx)) as [E|H']; [|exact H'].
      subst x. specialize (Hal a Hx). unfold lt in Hal. rewrite ltb_irrefl in Hal. discriminate.
    + destruct (proj2 (Hin x) (or_intror Hx)) as [E|H']; [|exact H'].
      subst x. specialize (Hal' a Hx). unfold lt in Hal'. rewrite ltb_irrefl in Hal'. discriminate.
Qed.

Lemma sorted_set_ext : forall l l', (forall x, In x l <-> In x l') -> sorted_set l = sorted_set l'.
Proof.
  intros l l' H. apply sorted_unique; try apply sorted_set_sorted.
  intro x. rewrite !sorted_set_In. apply H.
Qed.

Lemma filter_sorted : forall (p : T -> bool) l, StronglySorted lt l -> StronglySorted lt (filter p l).
Proof.
  intros p l H; induction H as [|a l Hs IH Hall]; simpl; [constructor|].
  destruct (p a); [|exact IH]. constructor; [exact IH|].
  rewrite Forall_forall in *. intros x Hx. apply filter_In in Hx. now apply Hall.
Qed.

(* dictionaries *)
Lemma lookup_combine : forall toks a t i, NoDup toks ->
  (lookup (combine toks (seq a (length toks))) t = Some i <-> (a <= i)%nat /\ nth_error toks (i - a) = Some t).
Proof.
  induction toks as [|h r IH]; intros a t i Hnd; simpl.
  - split; [discriminate|]. intros [_ H]. destruct (i - a)%nat; discriminate.
  - inversion Hnd as [|? ? Hnin Hnd']; subst.
    destruct (eqb t h) eqn:E.
    + apply eqb_eq in E; subst h. split.
      * intro H; inversion H; subst. split; [lia|]. now rewrite Nat.sub_diag.
      * intros [Hle H]. destruct (i - a)%nat as [|j] eqn:Ej; [f_equal; lia|].
        simpl in H. exfalso. apply Hnin. eapply nth_error_In; eauto.
    + rewrite IH by assumption. apply eqb_neq in E. split.
      * intros [Hle H]. split; [lia|]. replace (i - a)%nat with (S (i - S a)) by lia. exact H.
      * intros [Hle H]. destruct (i - a)%nat as [|j] eqn:Ej.
        { simpl in H. inversion H. congruence. }
        simpl in H. split; [lia|]. replace (i - S a)%nat with j by lia. exact H.
Qed.

Lemma lookup_mk_dict : forall toks t i, NoDup toks ->
  (lookup (mk_dict toks) t = Some i <-> nth_error toks i = Some t).
Proof.
  intros toks t i Hnd. unfold K5_Vocab.mk_dict. rewrite lookup_combine by assumption.
  rewrite Nat.sub_0_r. intuition lia.
Qed.

Lemma lookup_None : forall toks t, lookup (mk_dict toks) t = None <-> ~ In t toks.
Proof.
  intros toks t. unfold K5_Vocab.mk_dict. generalize 0%nat.
  induction toks as [|h r IH]; intro a; simpl; [intuition|].
  destruct (eqb t h) eqn:E.
  - apply eqb_eq in E. subst. split; [discriminate|]. intro H. exfalso. apply H. now left.
  - apply eqb_neq in E. rewrite IH. intuition.
Qed.

Lemma mk_dict_fst : forall toks, map fst (mk_dict toks) = toks.
Proof.
  intro toks. unfold K5_Vocab.mk_dict. generalize 0%nat.
  induction toks as [|h r IH]; intro a; simpl; [reflexivity|]. now rewrite IH.
Qed.

Lemma mk_dict_snd : forall toks, map snd (mk_dict toks) = seq 0 (length toks).
Proof.
  intro toks. unfold K5_Vocab.mk_dict. generalize 0%nat.
  induction toks as [|h r IH]; intro a; simpl; [reflexivity|]. now rewrite IH.
Qed.

Lemma mk_dict_length : forall toks, length (mk_dict toks) = length toks.
Proof. intro toks. rewrite <- (mk_dict_fst toks) at 2. now rewrite map_length. Qed.

Lemma mk_dict_In : forall toks t i, In (t, i) (mk_dict toks) <-> nth_error toks i = Some t.
Proof.
  intros toks t i. unfold K5_Vocab.mk_dict.
  assert (G : forall a, In (t, i) (combine toks (seq a (length toks))) <-> (a <= i)%nat /\ nth_error toks (i - a) = Some t).
  { induction toks as [|h r IH]; intro a; simpl.
    - split; [tauto|]. intros [_ H]. destruct (i - a)%nat; discriminate.
    - rewrite IH. split.
      + intros [E|[Hle H]].
        * inversion E; subst. split; [lia|]. now rewrite Nat.sub_diag.
        * split; [lia|]. replace (i - a)%nat with (S (i - S a)) by lia. exact H.
      + intros [Hle H]. destruct (i - a)%nat as [|j] eqn:Ej.
        * simpl in H. inversion H; subst. left. f_equal. lia.
        * right. split; [lia|]. replace (i - S a)%nat with j by lia. exact H. }
  rewrite G. rewrite Nat.sub_0_r. intuition lia.
Qed.

(* index = rank among the kept tokens *)
Lemma sorted_rank : forall toks t i, StronglySorted lt toks -> nth_error toks i = Some t ->
  i = length (filter (fun t' => ltb t' t) toks).
Proof.
  induction toks as [|h r IH]; intros t i Hs Hn; [destruct i; discriminate|].
  inversion Hs as [|? ? Hr Hall]; subst. rewrite Forall_forall in Hall.
  destruct i as [|i]; simpl in Hn.
  - inversion Hn; subst. simpl. rewrite ltb_irrefl. rewrite filter_none; [reflexivity|].
    rewrite Forall_forall. intros x Hx. specialize (Hall x Hx).
    destruct (ltb x t) eqn:E; [|reflexivity]. exfalso. eapply ltb_asym; eauto.
  - simpl. assert (Hht : ltb h t = true) by (apply Hall; eapply nth_error_In; eauto).
    rewrite Hht. simpl. f_equal. now apply IH.
Qed.

(* counts *)
Definition cnt (t : T) (s : list T) : Z := Z.of_nat (length (filter (eqb t) s)).
Definition dcnt (t : T) (docs : list (list T)) : Z := Z.of_nat (length (filter (mem t) docs)).

Lemma count_occ_index_list : forall toks s i t, NoDup toks -> nth_error toks i = Some t ->
  count_occ Nat.eq_dec (index_list (mk_dict toks) s) i = length (filter (eqb t) s).
Proof.
  intros toks s i t Hnd Hi. induction s as [|x s IH]; simpl; [reflexivity|].
  rewrite count_occ_app, IH.
  destruct (lookup (mk_dict toks) x) as [j|] eqn:L.
  - apply lookup_mk_dict in L; [|exact Hnd]. simpl.
    destruct (Nat.eq_dec j i) as [E|NE].
    + subst j. assert (x = t) by congruence. subst x. rewrite eqb_refl. simpl. lia.
    + destruct (eqb t x) eqn:E; [|simpl; lia]. apply eqb_eq in E. subst x. exfalso.
      apply NE. eapply NoDup_nth_error; eauto; [|congruence].
      apply nth_error_Some. congruence.
  - apply lookup_None in L. simpl.
    destruct (eqb t x) eqn:E; [|lia]. apply eqb_eq in E. subst x. exfalso. apply L.
    eapply nth_error_In; eauto.
Qed.

Lemma index_list_range : forall toks s, NoDup toks -> Forall (fun i => (i < length toks)%nat) (index_list (mk_dict toks) s).
Proof.
  intros toks s Hnd. induction s as [|x s IH]; simpl; [constructor|].
  apply Forall_app. split; [|exact IH].
  destruct (lookup (mk_dict toks) x) as [j|] eqn:L; [|constructor].
  apply lookup_mk_dict in L; [|exact Hnd]. constructor; [|constructor].
  apply nth_error_Some. congruence.
Qed.

Lemma index_list_In : forall toks s i t, NoDup toks -> nth_error toks i = Some t -> In t s ->
  In i (index_list (mk_dict toks) s).
Proof.
  intros toks s i t Hnd Hi Hin. induction s as [|x s IH]; simpl in *; [contradiction|].
  apply in_or_app. destruct Hin as [->|Hin]; [left|right; now apply IH].
  apply (lookup_mk_dict toks t i Hnd) in Hi. rewrite Hi. now left.
Qed.

Lemma list_max_In : forall l i, In i l -> (i <= list_max l)%nat.
Proof.
  intros l i H. pose proof (proj1 (list_max_le l (list_max l)) (Nat.le_refl _)) as F.
  rewrite Forall_forall in F. now apply F.
Qed.

Lemma bincount_nth : forall l m i, (i < m)%nat \/ In i l ->
  nth_error (bincount l m) i = Some (Z.of_nat (count_occ Nat.eq_dec l i)).
Proof.
  intros l m i H. unfold bincount.
  set (L := Nat.max m (match l with [] => 0%nat | _ => S (list_max l) end)).
  assert (Hi : (i < L)%nat).
  { unfold L. destruct H as [H|H]; [lia|]. pose proof (list_max_In l i H). destruct l; [contradiction|]. lia. }
  rewrite nth_error_map. rewrite (nth_error_nth' _ 0%nat) by (rewrite seq_length; exact Hi).
  rewrite seq_nth by exact Hi. reflexivity.
Qed.

Lemma bincount_length : forall l m, Forall (fun i => (i < m)%nat) l -> length (bincount l m) = m.
Proof.
  intros l m H. unfold bincount. rewrite map_length, seq_length.
  destruct l as [|a l]; [lia|].
  assert (list_max (a :: l) <= m - 1)%nat
    by (apply list_max_le; eapply Forall_impl; [|exact H]; simpl; intros; lia).
  inversion H; subst. lia.
Qed.

(* token frequency table of the learned dictionary *)
Lemma construct_table : forall s i t, nth_error (sorted_set s) i = Some t ->
  nth_error (snd (fst (construct T eqb ltb f32div s None))) i
  = Some (f32div (cnt t s) (Z.of_nat (length s))).
Proof.
  intros s i t Hi. unfold construct. simpl.
  assert (Hnd : NoDup (sorted_set s)) by (apply sorted_NoDup, sorted_set_sorted).
  rewrite nth_error_map. rewrite bincount_nth.
  - simpl. rewrite (count_occ_index_list _ _ _ t Hnd Hi). reflexivity.
  - right. eapply index_list_In; eauto. apply sorted_set_In. eapply nth_error_In; eauto.
Qed.

Lemma vec_add_length : forall a b, length a = length b -> length (vec_add a b) = length a.
Proof.
  induction a as [|x a IH]; intros [|y b] H; simpl in *; try lia. rewrite IH; lia.
Qed.

Lemma vec_add_nth : forall a b i x y, nth_error a i = Some x -> nth_error b i = Some y ->
  nth_error (vec_add a b) i = Some (x + y).
Proof.
  induction a as [|x0 a IH]; intros [|y0 b] [|i] x y Ha Hb; simpl in *; try discriminate.
  - congruence.
  - now apply IH.
Qed.

Lemma mem_sorted_set_count : forall t doc,
  length (filter (eqb t) (sorted_set doc)) = if mem t doc then 1%nat else 0%nat.
Proof.
  intros t doc.
  assert (Hnd : NoDup (sorted_set doc)) by (apply sorted_NoDup, sorted_set_sorted).
  destruct (mem t doc) eqn:M.
  - apply mem_In in M. apply sorted_set_In in M. revert M Hnd. generalize (sorted_set doc) as l.
    induction l as [|h r IH]; intros M Hnd; [contradiction|]. inversion Hnd as [|? ? Hnin Hnd']; subst.
    simpl. destruct (eqb t h) eqn:E.
    + apply eqb_eq in E. subst h. simpl. f_equal. rewrite filter_none; [reflexivity|].
      rewrite Forall_forall. intros x Hx. apply eqb_neq. intro; subst. contradiction.
    + apply eqb_neq in E. destruct M as [->|M]; [contradiction|]. now apply IH.
  - apply mem_false in M. rewrite filter_none; [reflexivity|].
    rewrite Forall_forall. intros x Hx. apply eqb_neq. intro; subst. apply M. now apply sorted_set_In.
Qed.

Lemma doc_counts_table : forall docs toks i t, NoDup toks -> nth_error toks i = Some t ->
  nth_error (doc_counts T eqb ltb docs (mk_dict toks)) i = Some (dcnt t docs).
Proof.
  intros docs toks i t Hnd Hi. unfold doc_counts. rewrite mk_dict_length.
  assert (Hlt : (i < length toks)%nat) by (apply nth_error_Some; congruence).
  assert (G : forall acc a, length acc = length toks -> nth_error acc i = Some a ->
     nth_error (fold_left (fun acc doc => vec_add acc (bincount (index_list (mk_dict toks) (sorted_set doc)) (length toks))) docs acc) i
     = Some (a + dcnt t docs)).
  { induction docs as [|doc docs IH]; intros acc a Hl Ha; simpl.
    - unfold dcnt. simpl. rewrite Z.add_0_r. exact Ha.
    - assert (Hb : length (bincount (index_list (mk_dict toks) (sorted_set doc)) (length toks)) = length toks)
        by (apply bincount_length, index_list_range; exact Hnd).
      rewrite (IH _ (a + (if mem t doc then 1 else 0))).
      + f_equal. unfold dcnt. simpl. destruct (mem t doc); simpl length; lia.
      + rewrite vec_add_length; lia.
      + apply vec_add_nth; [exact Ha|]. rewrite bincount_nth by (left; exact Hlt).
        rewrite (count_occ_index_list _ _ _ t Hnd Hi). rewrite mem_sorted_set_count.
        now destruct (mem t doc). }
  rewrite (G _ 0).
  - reflexivity.
  - apply repeat_length.
  - rewrite nth_error_repeat by exact Hlt. reflexivity.
Qed.


(* ------------------------------------------------------------------ token-level description of prune *)
Notation prune := (prune T eqb matches f64div f64to32 one64).
Notation learn_gen := (learn_gen T eqb ltb matches f32div f64div f64to32 one64).
Notation resolve_min := (resolve_min f64div).
Notation resolve_max := (resolve_max f64div one64).

Definition oob (lo hi f : Z) : bool := (f <? lo) || (hi <? f).

Definition keep_tok (c : config T) (need : bool) (F G : T -> Z) (lo hi dlo dhi : Z) (t : T) : bool :=
  negb (mem t (ignored c) || oob (f64to32 lo) (f64to32 hi) (F t) || (need && oob dlo dhi (G t))
        || (use_regex c && matches t)).

Definition topk_toks (k : option nat) (F : T -> Z) (l : list T) : list T :=
  match k with
  | None => l
  | Some k => if (k <? length l)%nat
              then filter (fun t => nth (length l - k - 1) (sortZ (map F l)) 0 <? F t) l
              else l
  end.

Lemma filter_map_fst : forall (A B : Type) (p : A * B -> bool) (q : A -> bool) (d : list (A * B)),
  (forall e, In e d -> p e = q (fst e)) -> map fst (filter p d) = filter q (map fst d).
Proof.
  intros A B p q d; induction d as [|e d IH]; intro H; simpl; [reflexivity|].
  rewrite (H e (or_introl eq_refl)). destruct (q (fst e)); simpl; rewrite IH; auto; intros; apply H; now right.
Qed.

Lemma top_k_repr : forall k F l,
  top_k T k l (map F l) = (topk_toks k F l, map F (topk_toks k F l)).
Proof.
  intros [k|] F l; unfold top_k, topk_toks; [|reflexivity].
  rewrite map_length. destruct (k <? length l)%nat; [|reflexivity].
  set (v := nth (length l - k - 1) (sortZ (map F l)) 0). clearbody v.
  induction l as [|t l IH]; simpl; [reflexivity|].
  destruct (v <? F t); simpl; inversion IH as [[E1 E2]]; rewrite ?E1, ?E2; rewrite <- ?E1; reflexivity.
Qed.

Lemma prune_repr : forall c need toks tf df F G n nd, NoDup toks ->
  (forall i t, nth_error toks i = Some t -> nth_error tf i = Some (F t)) ->
  (need = true -> forall i t, nth_error toks i = Some t -> nth_error df i = Some (G t)) ->
  (need = false -> df = []) ->
  prune c (mk_dict toks) tf df n nd =
  bind (resolve_min (min_occ c) (min_freq c) n) (fun lo =>
  bind (resolve_max (max_occ c) (max_freq c) n) (fun hi =>
  bind (resolve_min (min_dococc c) (min_docfreq c) nd) (fun dlo =>
  bind (resolve_max (max_dococc c) (max_docfreq c) nd) (fun dhi =>
    let toks2 := topk_toks (max_unique c) F (filter (keep_tok c need F G lo hi dlo dhi) toks) in
    Ok (mk_dict toks2, map F toks2))))).
Proof.
  intros c need toks tf df F G n nd Hnd Htf Hdf1 Hdf0. unfold K5_Vocab.prune.
  destruct (resolve_min (min_occ c) (min_freq c) n) as [lo|]; [|reflexivity].
  destruct (resolve_max (max_occ c) (max_freq c) n) as [hi|]; [|reflexivity].
  destruct (resolve_min (min_dococc c) (min_docfreq c) nd) as [dlo|]; [|reflexivity].
  destruct (resolve_max (max_dococc c) (max_docfreq c) nd) as [dhi|]; [|reflexivity].
  simpl bind.
  set (pr := fun e : T * nat => negb (mem (fst e) (ignored c) || out_of_bounds tf (f64to32 lo) (f64to32 hi) (snd e)
               || out_of_bounds df dlo dhi (snd e) || (use_regex c && matches (fst e)))).
  assert (Hpr : forall e, In e (mk_dict toks) -> pr e = keep_tok c need F G lo hi dlo dhi (fst e)).
  { intros [t i] He. apply mk_dict_In in He. unfold pr, keep_tok, out_of_bounds; simpl.
    rewrite (Htf i t He). destruct need.
    - rewrite (Hdf1 eq_refl i t He). reflexivity.
    - rewrite (Hdf0 eq_refl). replace (nth_error (@nil Z) i) with (@None Z) by (destruct i; reflexivity).
      simpl. unfold oob. rewrite !orb_false_r. reflexivity. }
  assert (E1 : map fst (filter pr (mk_dict toks)) = filter (keep_tok c need F G lo hi dlo dhi) toks).
  { rewrite (filter_map_fst _ _ pr _ _ Hpr). now rewrite mk_dict_fst. }
  assert (E2 : map (fun e : T * nat => nth (snd e) tf 0) (filter pr (mk_dict toks))
               = map F (filter (keep_tok c need F G lo hi dlo dhi) toks)).
  { rewrite <- E1. rewrite map_map. apply map_ext_in. intros [t i] He. apply filter_In in He.
    destruct He as [He _]. apply mk_dict_In in He. simpl. apply nth_error_nth. now apply Htf. }
  change (filter (fun e : T * nat => negb (mem (fst e) (ignored c) || out_of_bounds tf (f64to32 lo) (f64to32 hi) (snd e)
               || out_of_bounds df dlo dhi (snd e) || (use_regex c && matches (fst e)))) (mk_dict toks))
    with (filter pr (mk_dict toks)).
  rewrite E1, E2, top_k_repr. reflexivity.
Qed.

Definition freqF (docs : list (list T)) (t : T) : Z :=
  f32div (cnt t (concat docs)) (Z.of_nat (length (concat docs))).
Definition dfreqG (docs : list (list T)) (t : T) : Z :=
  f64div (dcnt t docs) (Z.of_nat (length docs)).

Lemma learn_gen_repr : forall need c docs,
  learn_gen need c docs None =
  let n := Z.of_nat (length (concat docs)) in
  let nd := Z.of_nat (length docs) in
  bind (resolve_min (min_occ c) (min_freq c) n) (fun lo =>
  bind (resolve_max (max_occ c) (max_freq c) n) (fun hi =>
  bind (resolve_min (min_dococc c) (min_docfreq c) nd) (fun dlo =>
  bind (resolve_max (max_dococc c) (max_docfreq c) nd) (fun dhi =>
    let toks2 := topk_toks (max_unique c) (freqF docs)
                   (filter (keep_tok c need (freqF docs) (dfreqG docs) lo hi dlo dhi) (sorted_set (concat docs))) in
    Ok (mk_dict toks2, map (freqF docs) toks2))))).
Proof.
  intros need c docs. unfold K5_Vocab.learn_gen.
  assert (Hnd : NoDup (sorted_set (concat docs))) by (apply sorted_NoDup, sorted_set_sorted).
  pose proof (construct_table (concat docs)) as Htab.
  unfold construct in *. simpl in Htab. cbv zeta.
  apply prune_repr with (G := dfreqG docs); [exact Hnd | exact Htab | |].
  - intros -> i t Hi. unfold doc_freqs. rewrite nth_error_map.
    rewrite (doc_counts_table docs _ i t Hnd Hi). reflexivity.
  - intros ->. reflexivity.
Qed.

(* ------------------------------------------------------------------ the property-level statements *)
Section Spec.
Variable c : config T.
Variable need : bool.
Variable docs : list (list T).
Variables lo hi dlo dhi : Z.

Definition candidate (t : T) : Prop :=
  In t (concat docs) /\ ~ In t (ignored c) /\ (use_regex c = true -> matches t = false)
  /\ (freqF docs t <? f64to32 lo) = false /\ (f64to32 hi <? freqF docs t) = false
  /\ (need = true -> (dfreqG docs t <? dlo) = false /\ (dhi <? dfreqG docs t) = false).

(* among the candidates, at most k are at least as frequent as t *)
Definition in_topk (t : T) : Prop :=
  match max_unique c with
  | None => True
  | Some k => forall l, NoDup l -> (forall t', In t' l -> candidate t' /\ freqF docs t <= freqF docs t') ->
                        (length l <= k)%nat
  end.

Let toks1 := filter (keep_tok c need (freqF docs) (dfreqG docs) lo hi dlo dhi) (sorted_set (concat docs)).
Let toks2 := topk_toks (max_unique c) (freqF docs) toks1.

Lemma toks1_In : forall t, In t toks1 <-> candidate t.
Proof.
  intro t. unfold toks1, candidate. rewrite filter_In, sorted_set_In. unfold keep_tok, oob.
  rewrite negb_true_iff, !orb_false_iff.
  rewrite mem_false. destruct need, (use_regex c); simpl; rewrite ?orb_false_iff; intuition congruence.
Qed.

Lemma toks1_sorted : StronglySorted lt toks1.
Proof. apply filter_sorted, sorted_set_sorted. Qed.

Lemma count_ge_map : forall x (l : list T),
  count_ge x (map (freqF docs) l) = length (filter (fun t' => x <=? freqF docs t') l).
Proof.
  intros x l. unfold count_ge. induction l as [|a l IH]; simpl; [reflexivity|].
  destruct (x <=? freqF docs a); simpl; now rewrite IH.
Qed.

Lemma count_gt_map : forall x (l : list T),
  count_gt x (map (freqF docs) l) = length (filter (fun t' => x <? freqF docs t') l).
Proof.
  intros x l. unfold count_gt. induction l as [|a l IH]; simpl; [reflexivity|].
  destruct (x <? freqF docs a); simpl; now rewrite IH.
Qed.

Lemma toks2_In : forall t, In t toks2 <-> candidate t /\ in_topk t.
Proof.
  intro t. unfold toks2, topk_toks, in_topk. pose proof toks1_sorted as Hs. pose proof (sorted_NoDup _ Hs) as Hnd.
  destruct (max_unique c) as [k|]; [|rewrite toks1_In; tauto].
  destruct (Nat.ltb_spec k (length toks1)) as [Hk|Hk].
  - rewrite filter_In, toks1_In, Z.ltb_lt.
    assert (Hk' : (k < length (map (freqF docs) toks1))%nat) by (now rewrite map_length).
    pose proof (kth_largest_gt_iff (map (freqF docs) toks1) k (freqF docs t) Hk') as Hv.
    rewrite map_length in Hv. cbv zeta in Hv. rewrite Hv, count_ge_map.
    split; intros [Hc H]; split; try exact Hc.
    + intros l Hl Hall. etransitivity; [|exact H].
      apply NoDup_incl_length; [exact Hl|]. intros t' Ht'. destruct (Hall t' Ht') as [Hc' Hle].
      apply filter_In. split; [now apply toks1_In | now apply Z.leb_le].
    + apply H.
      * apply NoDup_filter. exact Hnd.
      * intros t' Ht'. apply filter_In in Ht'. destruct Ht' as [H1 H2]. split; [now apply toks1_In | now apply Z.leb_le].
  - rewrite toks1_In. split; [|tauto]. intro Hc. split; [exact Hc|].
    intros l Hl Hall. etransitivity; [|exact Hk]. apply NoDup_incl_length; [exact Hl|].
    intros t' Ht'. apply toks1_In. now apply Hall.
Qed.

Lemma toks2_sorted : StronglySorted lt toks2.
Proof.
  unfold toks2, topk_toks. destruct (max_unique c) as [k|]; [|apply toks1_sorted].
  destruct (k <? length toks1)%nat; [apply filter_sorted|]; apply toks1_sorted.
Qed.

Lemma toks2_length : forall k, max_unique c = Some k -> (length toks2 <= k)%nat.
Proof.
  intros k Hk. unfold toks2, topk_toks. rewrite Hk.
  destruct (Nat.ltb_spec k (length toks1)) as [H|H]; [|exact H].
  rewrite <- count_gt_map. rewrite <- (map_length (freqF docs) toks1) at 1.
  apply kth_largest_count_gt. now rewrite map_length.
Qed.

Lemma toks2_dominates : forall t t', In t toks2 -> candidate t' -> ~ In t' toks2 -> freqF docs t' < freqF docs t.
Proof.
  intros t t' Ht Hc Hn. unfold toks2, topk_toks in *. apply toks1_In in Hc.
  destruct (max_unique c) as [k|]; [|contradiction].
  destruct (k <? length toks1)%nat; [|contradiction].
  apply filter_In in Ht. destruct Ht as [_ Ht]. apply Z.ltb_lt in Ht.
  rewrite filter_In in Hn.
  destruct (Z.ltb_spec (nth (length toks1 - k - 1) (sortZ (map (freqF docs) toks1)) 0) (freqF docs t')) as [H|H].
  - exfalso. apply Hn. split; [exact Hc|reflexivity].
  - lia.
Qed.

Hypothesis Hlo : resolve_min (min_occ c) (min_freq c) (Z.of_nat (length (concat docs))) = Ok lo.
Hypothesis Hhi : resolve_max (max_occ c) (max_freq c) (Z.of_nat (length (concat docs))) = Ok hi.
Hypothesis Hdlo : resolve_min (min_dococc c) (min_docfreq c) (Z.of_nat (length docs)) = Ok dlo.
Hypothesis Hdhi : resolve_max (max_dococc c) (max_docfreq c) (Z.of_nat (length docs)) = Ok dhi.

Lemma learn_gen_ok : learn_gen need c docs None = Ok (mk_dict toks2, map (freqF docs) toks2).
Proof. rewrite learn_gen_repr. cbv zeta. rewrite Hlo, Hhi, Hdlo, Hdhi. reflexivity. Qed.

End Spec.

(* the vocabulary is exactly the set of tokens meeting every constraint *)
Theorem vocab_kept_iff : forall c need docs lo hi dlo dhi,
  resolve_min (min_occ c) (min_freq c) (Z.of_nat (length (concat docs))) = Ok lo ->
  resolve_max (max_occ c) (max_freq c) (Z.of_nat (length (concat docs))) = Ok hi ->
  resolve_min (min_dococc c) (min_docfreq c) (Z.of_nat (length docs)) = Ok dlo ->
  resolve_max (max_dococc c) (max_docfreq c) (Z.of_nat (length docs)) = Ok dhi ->
  exists d fr, learn_gen need c docs None = Ok (d, fr) /\
    (forall t, In t (map fst d) <-> candidate c need docs lo hi dlo dhi t /\ in_topk c need docs lo hi dlo dhi t) /\
    fr = map (freqF docs) (map fst d).
Proof.
  intros c need docs lo hi dlo dhi H1 H2 H3 H4.
  eexists. eexists. split; [apply (learn_gen_ok c need docs lo hi dlo dhi H1 H2 H3 H4)|].
  rewrite mk_dict_fst. split; [|reflexivity]. intro t. apply toks2_In.
Qed.

Theorem vocab_topk : forall c need docs d fr k,
  learn_gen need c docs None = Ok (d, fr) -> max_unique c = Some k ->
  (length d <= k)%nat /\
  exists lo hi dlo dhi, forall t t', In t (map fst d) -> candidate c need docs lo hi dlo dhi t' -> ~ In t' (map fst d) ->
    freqF docs t' < freqF docs t.
Proof.
  intros c need docs d fr k H Hk. rewrite learn_gen_repr in H. cbv zeta in H.
  destruct (resolve_min (min_occ c) (min_freq c) _) as [lo|]; [|discriminate].
  destruct (resolve_max (max_occ c) (max_freq c) _) as [hi|]; [|discriminate].
  destruct (resolve_min (min_dococc c) (min_docfreq c) _) as [dlo|]; [|discriminate].
  destruct (resolve_max (max_dococc c) (max_docfreq c) _) as [dhi|]; [|discriminate].
  simpl in H. inversion H; subst d fr; clear H. rewrite mk_dict_length, mk_dict_fst. split.
  - now apply toks2_length.
  - exists lo, hi, dlo, dhi. apply toks2_dominates.
Qed.

(* indices are 0..n-1 in sorted token order *)
Theorem vocab_sorted_indices : forall c need docs d fr,
  learn_gen need c docs None = Ok (d, fr) ->
  StronglySorted lt (map fst d) /\ map snd d = seq 0 (length d) /\
  forall t i, lookup d t = Some i -> i = length (filter (fun t' => ltb t' t) (map fst d)).
Proof.
  intros c need docs d fr H. rewrite learn_gen_repr in H. cbv zeta in H.
  destruct (resolve_min (min_occ c) (min_freq c) _) as [lo|]; [|discriminate].
  destruct (resolve_max (max_occ c) (max_freq c) _) as [hi|]; [|discriminate].
  destruct (resolve_min (min_dococc c) (min_docfreq c) _) as [dlo|]; [|discriminate].
  destruct (resolve_max (max_dococc c) (max_docfreq c) _) as [dhi|]; [|discriminate].
  simpl in H. inversion H; subst d fr; clear H.
  rewrite mk_dict_fst, mk_dict_snd, mk_dict_length.
  pose proof (toks2_sorted c need docs lo hi dlo dhi) as Hs.
  split; [exact Hs|]. split; [reflexivity|].
  intros t i Hl. apply lookup_mk_dict in Hl; [|now apply sorted_NoDup].
  now apply sorted_rank.
Qed.

(* the result depends neither on the order of the documents nor on the order of the tokens within them *)
Lemma cnt_perm : forall t s s', Permutation s s' -> cnt t s = cnt t s'.
Proof.
  intros t s s' H. unfold cnt. f_equal. induction H; simpl.
  - reflexivity.
  - destruct (eqb t x); simpl; lia.
  - destruct (eqb t y), (eqb t x); simpl; lia.
  - lia.
Qed.

Lemma mem_perm : forall t s s', Permutation s s' -> mem t s = mem t s'.
Proof.
  intros t s s' H. destruct (mem t s') eqn:E.
  - apply mem_In. apply mem_In in E. eapply Permutation_in; [symmetry; exact H|exact E].
  - apply mem_false. apply mem_false in E. intro Hin. apply E. eapply Permutation_in; eauto.
Qed.

Lemma dcnt_perm : forall t docs docs', Permutation docs docs' -> dcnt t docs = dcnt t docs'.
Proof.
  intros t docs docs' H. unfold dcnt. f_equal. induction H; simpl.
  - reflexivity.
  - destruct (mem t x); simpl; lia.
  - destruct (mem t y), (mem t x); simpl; lia.
  - lia.
Qed.

Lemma dcnt_inner : forall t docs docs', Forall2 (@Permutation T) docs docs' -> dcnt t docs = dcnt t docs'.
Proof.
  intros t docs docs' H. unfold dcnt. f_equal. induction H as [|x y l l' Hxy _ IH]; simpl; [reflexivity|].
  rewrite (mem_perm t x y Hxy). destruct (mem t y); simpl; lia.
Qed.

Lemma concat_perm_inner : forall docs docs' : list (list T), Forall2 (@Permutation T) docs docs' ->
  Permutation (concat docs) (concat docs').
Proof.
  intros docs docs' H. induction H; simpl; [reflexivity|]. now apply Permutation_app.
Qed.

Lemma concat_perm_outer : forall docs docs' : list (list T), Permutation docs docs' ->
  Permutation (concat docs) (concat docs').
Proof.
  intros docs docs' H. induction H; simpl.
  - reflexivity.
  - now apply Permutation_app_head.
  - rewrite !app_assoc. apply Permutation_app_tail. apply Permutation_app_comm.
  - etransitivity; eauto.
Qed.

Lemma Forall2_len : forall (A B : Type) (R : A -> B -> Prop) l l', Forall2 R l l' -> length l = length l'.
Proof. intros A B R l l' H; induction H; simpl; congruence. Qed.

Theorem vocab_perm_invariant : forall c need docs docs1 docs',
  Permutation docs docs1 -> Forall2 (@Permutation T) docs1 docs' ->
  learn_gen need c docs None = learn_gen need c docs' None.
Proof.
  intros c need docs docs1 docs' H1 H2. rewrite !learn_gen_repr. cbv zeta.
  assert (Hflat : Permutation (concat docs) (concat docs')).
  { etransitivity; [apply concat_perm_outer; exact H1 | apply concat_perm_inner; exact H2]. }
  assert (Hn : length (concat docs) = length (concat docs')) by now apply Permutation_length.
  assert (Hnd : length docs = length docs').
  { rewrite (Permutation_length H1). eapply Forall2_len; eauto. }
  assert (HF : forall t, freqF docs t = freqF docs' t).
  { intro t. unfold freqF. now rewrite Hn, (cnt_perm t _ _ Hflat). }
  assert (HG : forall t, dfreqG docs t = dfreqG docs' t).
  { intro t. unfold dfreqG. now rewrite Hnd, (dcnt_perm t _ _ H1), (dcnt_inner t _ _ H2). }
  assert (Hset : sorted_set (concat docs) = sorted_set (concat docs')).
  { apply sorted_set_ext. intro x. split; apply Permutation_in; [exact Hflat | now symmetry]. }
  rewrite Hn, Hnd, Hset.
  destruct (resolve_min (min_occ c) (min_freq c) _) as [lo|]; [|reflexivity].
  destruct (resolve_max (max_occ c) (max_freq c) _) as [hi|]; [|reflexivity].
  destruct (resolve_min (min_dococc c) (min_docfreq c) _) as [dlo|]; [|reflexivity].
  destruct (resolve_max (max_dococc c) (max_docfreq c) _) as [dhi|]; [|reflexivity].
  simpl.
  assert (Hk : forall l, filter (keep_tok c need (freqF docs) (dfreqG docs) lo hi dlo dhi) l
                       = filter (keep_tok c need (freqF docs') (dfreqG docs') lo hi dlo dhi) l).
  { intro l. apply filter_ext. intro t. unfold keep_tok. now rewrite HF, HG. }
  rewrite Hk.
  assert (Ht : forall l, topk_toks (max_unique c) (freqF docs) l = topk_toks (max_unique c) (freqF docs') l).
  { intro l. unfold topk_toks. destruct (max_unique c); [|reflexivity].
    rewrite (map_ext _ _ HF). destruct (_ <? _)%nat; [|reflexivity]. apply filter_ext. intro t. now rewrite HF. }
  rewrite Ht. f_equal. f_equal. apply map_ext. exact HF.
Qed.

(* the frequency table has one entry per dictionary entry (np.bincount(..., minlength=len(token_dictionary))) *)
Lemma lookup_In_snd : forall (d : dict T) t i, lookup d t = Some i -> In i (map snd d).
Proof.
  induction d as [|[k v] d IH]; simpl; intros t i H; [discriminate|].
  destruct (eqb t k); [inversion H; now left | right; eauto].
Qed.

Theorem freq_table_length : forall c need docs d0 d fr,
  learn_gen need c docs d0 = Ok (d, fr) ->
  (forall d1, d0 = Some d1 -> Forall (fun i => (i < length d1)%nat) (map snd d1)) ->
  length fr = length d.
Proof.
  intros c need docs [d1|] d fr H Hwf.
  - unfold K5_Vocab.learn_gen, construct in H. simpl in H. inversion H; subst d fr; clear H.
    rewrite map_length. apply bincount_length.
    specialize (Hwf d1 eq_refl). rewrite Forall_forall in *. intros i Hi.
    unfold K5_Vocab.index_list in Hi. apply in_flat_map in Hi. destruct Hi as (t & _ & Hi).
    destruct (lookup d1 t) as [j|] eqn:L; [|contradiction]. destruct Hi as [<-|[]].
    apply Hwf. eapply lookup_In_snd; eauto.
  - rewrite learn_gen_repr in H. cbv zeta in H.
    destruct (resolve_min (min_occ c) (min_freq c) _) as [lo|]; [|discriminate].
    destruct (resolve_max (max_occ c) (max_freq c) _) as [hi|]; [|discriminate].
    destruct (resolve_min (min_dococc c) (min_docfreq c) _) as [dlo|]; [|discriminate].
    destruct (resolve_max (max_dococc c) (max_docfreq c) _) as [dhi|]; [|discriminate].
    simpl in H. inversion H; subst d fr. now rewrite map_length, mk_dict_length.
Qed.

(* a supplied dictionary is used as given *)
Theorem vocab_given_dict : forall c need docs d,
  exists fr, learn_gen need c docs (Some d) = Ok (d, fr).
Proof. intros. unfold K5_Vocab.learn_gen, construct. simpl. eexists. reflexivity. Qed.

End VocabProofs.
